"""Signal-completeness probe for C17.

"Every wrapped operation emits exactly one 'before' signal ... operations nested inside another wrapped operation emit
nothing."  The fixed lifecycle script knows which calls *it* makes; this probe judges every execution of a wrapped operation's
body, whoever makes it (the worker, a consumer's background task, a broker acting on its own):

* the body of each wrapped method (the function *under* repid's middleware wrapper) is instrumented on the connection's broker
  objects and on every consumer they hand out: entry (task, time), exit;
* the loop records each task's parent, so "nested" is decided by dynamic extent, not by repid's own flag: an execution is nested
  iff some other wrapped operation of the connection is still executing and its body task is this execution's task or one of
  its ancestors.  A background task spawned inside an operation that has long returned is *not* nested;
* emissions counted at the connection's signal emitter (no subscriber is added).

At quiescence, per operation name: top-level executions <= before-signals and after-signals <= top-level executions that
returned (the exact counts for the script's own calls are judged by the script oracle).
"""
from __future__ import annotations

import asyncio
import weakref
from typing import Any

WRAPPED = ("consume", "enqueue", "queue_declare", "queue_flush", "queue_delete", "ack", "nack", "reject", "requeue",
           "get_bucket", "store_bucket", "delete_bucket", "actor_run")


def install_task_parents(loop: asyncio.AbstractEventLoop) -> Any:
    parents: "weakref.WeakKeyDictionary[asyncio.Task, asyncio.Task | None]" = weakref.WeakKeyDictionary()

    def factory(lp: asyncio.AbstractEventLoop, coro: Any, **kw: Any) -> asyncio.Task:
        t = asyncio.Task(coro, loop=lp, **kw)
        try:
            parents[t] = asyncio.current_task(lp)
        except RuntimeError:
            parents[t] = None
        return t

    loop.set_task_factory(factory)
    return parents


class Probe:
    def __init__(self, loop: asyncio.AbstractEventLoop) -> None:
        self.loop = loop
        self.parents = install_task_parents(loop)
        self.active: list[dict] = []
        self.execs: list[dict] = []  # {"op", "top", "returned", "t", "key"}
        self.signals: dict[str, int] = {}
        self._objs: list = []

    # ---- instrumentation
    def _ancestors(self, t: Any) -> list:
        out, n = [], 0
        while t is not None and n < 200:
            out.append(t)
            t = self.parents.get(t)
            n += 1
        return out

    def _wrap_obj(self, obj: Any) -> None:
        if any(o is obj for o in self._objs):
            return
        self._objs.append(obj)  # (strong references: an id() may be re-used by a later consumer object)
        for name in getattr(obj, "__WRAPPED_METHODS__", ()):
            w = getattr(obj, name, None)
            inner = getattr(w, "fn", None)
            if inner is None or name not in WRAPPED:
                continue
            w.fn = self._make(name, inner)
        gc = getattr(obj, "get_consumer", None)
        if gc is not None and not getattr(gc, "_mwprobe", False):
            def get_consumer(*a: Any, _gc: Any = gc, **k: Any) -> Any:
                c = _gc(*a, **k)
                self._wrap_obj(c)
                if getattr(self, "_emit", None) is not None:
                    self._rewire(c)
                return c
            get_consumer._mwprobe = True  # type: ignore[attr-defined]
            obj.get_consumer = get_consumer

    def _make(self, name: str, inner: Any) -> Any:
        import functools

        @functools.wraps(inner)
        async def body(*a: Any, **k: Any) -> Any:
            task = asyncio.current_task()
            line = self._ancestors(task)
            nested = any(x["task"] in line for x in self.active)
            key = a[0] if a else k.get("key")
            rec = {"op": name, "top": not nested, "returned": False, "t": self.loop.time(), "task": task,
                   "key": getattr(key, "id_", None)}
            self.execs.append(rec)
            self.active.append(rec)
            try:
                r = await inner(*a, **k)
                rec["returned"] = True
                return r
            finally:
                self.active.remove(rec)
        return body

    def detach(self) -> None:
        from repid._processor import _Processor

        if getattr(self, "_orig_actor_run", None) is not None:
            _Processor._actor_run = self._orig_actor_run
            self._orig_actor_run = None

    def attach(self, conn: Any) -> None:
        from repid._processor import _Processor

        # the actor run is wrapped per processor from this (static) function: instrument it for the probe's lifetime
        orig = _Processor.__dict__["_actor_run"]
        self._orig_actor_run = orig
        _Processor._actor_run = staticmethod(self._make("actor_run", orig.__func__ if isinstance(orig, staticmethod) else orig))
        for b in (conn.message_broker, conn.args_bucket_broker, conn.results_bucket_broker):
            if b is None:
                continue
            self._wrap_obj(getattr(b, "_mwprobe_target", b))
        # emissions are counted at the emitter, not by subscribing: the set of subscribers stays exactly what the case says
        # (code may - wrongly - behave differently depending on who subscribed to what)
        orig_emit = conn.middleware.emit_signal

        async def emit(name: str, kwargs: dict) -> None:
            self.signals[name] = self.signals.get(name, 0) + 1
            await orig_emit(name, kwargs)

        self._emit = emit
        conn.middleware.emit_signal = emit  # picked up by every processor created from now on (actor_run)
        for b in (conn.message_broker, conn.args_bucket_broker, conn.results_bucket_broker):
            if b is not None:
                self._rewire(b)

    def _rewire(self, obj: Any) -> None:
        if getattr(obj, "_signal_emitter_var", None) is not None:
            obj._signal_emitter_var = self._emit  # consumers created later inherit it
        for name in getattr(obj, "__WRAPPED_METHODS__", ()):
            w = getattr(obj, name, None)
            if getattr(w, "_repid_signal_emitter", None) is not None:
                w._repid_signal_emitter = self._emit

    # ---- verdict
    def mismatches(self) -> list[str]:
        out = []
        for op in WRAPPED:
            top = [e for e in self.execs if e["op"] == op and e["top"]]
            if any(e in self.active for e in top):
                continue  # still executing (e.g. a consume that blocks): its 'after' is not due yet
            nb, na = self.signals.get(f"before_{op}", 0), self.signals.get(f"after_{op}", 0)
            ret = [e for e in top if e["returned"]]
            # (a call cancelled between its 'before' signal and the start of its body leaves a signal without an execution, one
            #  cancelled between the body's return and the 'after' signal an execution without 'after': only the other
            #  directions are wrong whatever the timing)
            if len(top) > nb:
                silent = [e for e in top][-3:]
                out.append(f"{op}: {len(top)} top-level executions of the operation (the last ones: keys {[e['key'] for e in silent]} at "
                           f"t={[round(e['t'], 3) for e in silent]}) but only {nb} before_{op} signals")
            elif na > len(ret):
                out.append(f"{op}: {na} after_{op} signals but only {len(ret)} top-level executions returned")
        return out
