"""Runner core: sub-check registry, Hypothesis driving, sharding, replay, evidence, known findings.

A *check* (one per property) is a list of SubCheck objects.  Each SubCheck has
  * a Hypothesis strategy producing a JSON-serialisable *case*,
  * ``run(case) -> Outcome``: executes the case against the real code and returns the
    violations found (each with a signature used for known-finding matching), the classes
    the case falls in, whether it is non-trivial, and whether it was inconclusive,
  * example budgets per tier.

Exit codes: 0 held, 1 violation (prints ``VIOLATION property=<id> replay=<path>``), 2 harness error.
"""
from __future__ import annotations

import hashlib
import json
import os
import subprocess
import sys
import time
import traceback
from dataclasses import dataclass, field
from pathlib import Path
from typing import Any, Callable

ROOT = Path(__file__).resolve().parent.parent
REPLAYS = Path(os.environ.get("VERIF_REPLAY_DIR") or ROOT / "replays")
EVIDENCE = Path(os.environ.get("VERIF_EVIDENCE_DIR") or ROOT / "evidence")
WORK = ROOT / ".work"
KNOWN = ROOT / "known_findings.json"
NSHARDS = int(os.environ.get("VERIF_SHARDS", "16"))


class HarnessError(Exception):
    pass


@dataclass
class Violation:
    sub: str  # sub-check / oracle clause name
    msg: str
    facts: dict = field(default_factory=dict)  # discriminating facts for known-finding matching


@dataclass
class Outcome:
    violations: list = field(default_factory=list)
    classes: list = field(default_factory=list)
    nontrivial: bool = False
    inconclusive: bool = False
    info: dict = field(default_factory=dict)

    def v(self, sub: str, msg: str, **facts: Any) -> None:
        self.violations.append(Violation(sub, msg, facts))

    def cls(self, *names: str) -> None:
        for n in names:
            if n not in self.classes:
                self.classes.append(n)


@dataclass
class SubCheck:
    name: str
    strategy: Any  # hypothesis strategy (lazily built ok) or None for enumerations
    run: Callable[[Any], Outcome]
    quick: int = 100  # examples per shard
    thorough: int = 1000
    enumerate_cases: Callable[[str, int, int], Any] | None = None  # (tier, shard, nshards) -> iterable of cases
    shards: int | None = None  # override number of shards for this sub-check
    exhaustive: bool = False  # enumeration covers its finite space completely
    external: Callable[[str, int, int, int], Any] | None = None  # (tier, seed, shard, nshards) -> stats dict | None (other engine)


@dataclass
class Check:
    pid: str
    level: str
    rule: str
    subchecks: list
    assumptions: list = field(default_factory=list)
    setup: Callable[[], None] | None = None  # per-process initialisation


def case_hash(case: Any) -> str:
    return hashlib.sha1(json.dumps(case, sort_keys=True, default=str).encode()).hexdigest()[:14]


# ------------------------------------------------------------------------------------------
# known findings


def load_known(pid: str) -> list[dict]:
    if not KNOWN.exists():
        return []
    data = json.loads(KNOWN.read_text())
    return [e for e in data.get("findings", []) if e.get("property") == pid and e.get("status") == "open"]


def match_known(v: Violation, known: list[dict]) -> dict | None:
    for e in known:
        sig = e.get("signature", {})
        if sig.get("sub") != v.sub and v.sub not in sig.get("subs", []):
            continue
        ok = True
        for k, want in sig.get("facts", {}).items():
            if v.facts.get(k) != want:
                ok = False
                break
        if ok:
            return e
    return None


# ------------------------------------------------------------------------------------------
# shard worker


class _Found(Exception):
    pass


class _CaseTimeout(KeyboardInterrupt):  # (asyncio swallows other exceptions raised inside callbacks)
    pass


def _guarded(run: Callable[[Any], Outcome], case: Any, limit_s: float) -> Outcome:
    """One evaluation under a wall-clock alarm and the process's address-space limit.  A case that runs away (only ever seen on
    modified library code) is inconclusive - never a violation, never a hang of the whole run."""
    import gc
    import signal

    def on_alarm(signum, frame):  # noqa: ANN001
        raise _CaseTimeout()

    old = signal.signal(signal.SIGALRM, on_alarm)
    signal.setitimer(signal.ITIMER_REAL, limit_s)
    try:
        return run(case)
    except _CaseTimeout:
        out = Outcome()
        out.inconclusive = True
        out.cls("watchdog-wall-clock")
        return out
    except MemoryError:
        gc.collect()
        out = Outcome()
        out.inconclusive = True
        out.cls("watchdog-memory")
        return out
    except Exception as e:  # noqa: BLE001
        # An exception that escaped from the library under test into the check (innermost frame inside <REPID_SRC>/repid, and no
        # check expected it there) is a verdict about the library - it raised where every check on the pinned tree runs through -
        # not an error of the harness.  Anything raised by harness code itself stays a harness error (exit 2).
        import traceback

        tb = traceback.extract_tb(e.__traceback__)
        lib = os.path.join(os.path.realpath(os.environ.get("REPID_SRC", "/repo")), "repid") + os.sep
        if tb and os.path.realpath(tb[-1].filename).startswith(lib):
            out = Outcome()
            last = tb[-1]
            out.v("library-exception", f"{type(e).__name__}: {e} - raised at {last.filename[len(lib) - 6:]}:{last.lineno} ({last.name}) and not "
                  "handled anywhere: the operation the check performed failed inside the library", exception=type(e).__name__)
            return out
        raise
    finally:
        signal.setitimer(signal.ITIMER_REAL, 0)
        signal.signal(signal.SIGALRM, old)


def _run_sub_shard(check: Check, sub: SubCheck, tier: str, seed: int, shard: int, nshards: int) -> dict:
    import hypothesis
    from hypothesis import HealthCheck, Phase, given, settings

    known = load_known(check.pid)
    stats: dict[str, Any] = {
        "sub": sub.name,
        "evaluations": 0,
        "nontrivial_hashes": set(),
        "classes": {},
        "samples": [],
        "inconclusive": 0,
        "known": {},
        "failure": None,
        "errors": [],
    }
    best: dict[str, Any] = {"case": None, "viol": None, "t0": None, "hash": None}
    shrink_budget = 25.0 if tier == "quick" else 120.0

    def evaluate(case: Any, counting: bool = True) -> list[Violation]:
        out = _guarded(sub.run, case, float(os.environ.get("VERIF_CASE_LIMIT_S") or (180.0 if tier == "quick" else 600.0)))
        if counting:
            stats["evaluations"] += 1
            for c in out.classes:
                stats["classes"][c] = stats["classes"].get(c, 0) + 1
            if out.inconclusive:
                stats["inconclusive"] += 1
            if out.nontrivial:
                h = case_hash(case)
                if h not in stats["nontrivial_hashes"]:
                    stats["nontrivial_hashes"].add(h)
                    if len(stats["samples"]) < 3:
                        stats["samples"].append(case)
        unknown = []
        for v in out.violations:
            e = match_known(v, known)
            if e is not None:
                if counting:
                    stats["known"][e["id"]] = stats["known"].get(e["id"], 0) + 1
            else:
                unknown.append(v)
        return unknown

    def test_body(case: Any) -> None:
        if best["t0"] is not None and time.monotonic() - best["t0"] > shrink_budget:
            # shrink budget spent: only the best failing case so far still fails
            if case_hash(case) != best["hash"]:
                return
        unknown = evaluate(case, counting=best["t0"] is None)
        if unknown:
            if best["t0"] is None:
                best["t0"] = time.monotonic()
            best["case"], best["viol"], best["hash"] = case, unknown, case_hash(case)
            raise _Found(unknown[0].msg)

    if sub.external is not None:
        ext = sub.external(tier, seed, shard, nshards)
        if ext is None:
            stats["distinct_nontrivial"] = 0
            stats["nontrivial_hashes"] = []
            return stats
        stats["evaluations"] = ext.get("evaluations", 0)
        stats["samples"] = ext.get("samples", [])[:3]
        stats["classes"] = ext.get("classes", {})
        stats["errors"] = ext.get("errors", [])
        # distinct non-trivial inputs cannot be hashed across a libFuzzer process boundary: count conservatively
        hashes = {case_hash(c) for c in ext.get("nontrivial_cases", [])}
        if ext.get("failure"):
            again = evaluate(ext["failure"]["case"], counting=False)
            if again:
                stats["failure"] = {"case": ext["failure"]["case"],
                                    "violations": [{"sub": v.sub, "msg": v.msg, "facts": v.facts} for v in again]}
            else:
                stats["errors"].append("external engine failure did not reproduce")
        stats["distinct_nontrivial"] = len(hashes)
        stats["nontrivial_hashes"] = sorted(hashes)
        return stats

    # regression tier: saved cases (shrunk failures of earlier defects / seeded changes) are replayed first, library bypassed
    if shard == 0:
        for f in sorted((ROOT / "regressions" / check.pid).glob("*.json")):
            try:
                data = json.loads(f.read_text())
            except Exception:  # noqa: BLE001
                continue
            if data.get("sub") != sub.name:
                continue
            unknown = evaluate(data["case"])
            stats["classes"]["regression-replays"] = stats["classes"].get("regression-replays", 0) + 1
            if unknown and best["case"] is None:
                best["case"], best["viol"] = data["case"], unknown

    if best["case"] is not None:
        pass
    elif sub.enumerate_cases is not None and (tier == "thorough" or sub.strategy is None):
        for case in sub.enumerate_cases(tier, shard, nshards):
            unknown = evaluate(case)
            if unknown:
                best["case"], best["viol"] = case, unknown
                break
    else:
        n = sub.quick if tier == "quick" else sub.thorough
        if n > 0:
            strat = sub.strategy() if callable(sub.strategy) and not hasattr(sub.strategy, "example") else sub.strategy
            phases = [Phase.generate, Phase.shrink]
            st = settings(
                max_examples=n,
                database=None,
                deadline=None,
                derandomize=False,
                report_multiple_bugs=False,
                suppress_health_check=list(HealthCheck),
                phases=phases,
                print_blob=False,
            )
            fn = hypothesis.seed(seed * 1000 + shard)(st(given(strat)(test_body)))
            try:
                fn()
            except _Found:
                pass
            except hypothesis.errors.Flaky as e:
                # expected once the shrink budget is spent (later candidates are short-circuited); a genuine
                # non-deterministic case is caught below by the re-execution from JSON
                if best["case"] is None:
                    stats["errors"].append("Flaky: " + str(e)[:500])
            except BaseException as e:  # noqa: BLE001
                if best["case"] is None:
                    stats["errors"].append("".join(traceback.format_exception(e))[-3000:])

    if best["case"] is not None:
        # re-execute from JSON before reporting (DESIGN §5): must fail again
        case = json.loads(json.dumps(best["case"]))
        again = evaluate(case, counting=False)
        for _ in range(2):
            if again:
                break
            again = evaluate(case, counting=False)  # (cases with real threads are not perfectly repeatable on a loaded machine)
        if again:
            stats["failure"] = {
                "case": case,
                "violations": [{"sub": v.sub, "msg": v.msg, "facts": v.facts} for v in again],
            }
        else:
            # A failure that three re-executions from the saved case do not show again cannot be handed over as a replay, so it is
            # not reported as a violation; it is not an error of the run either.  It is counted (evidence: class
            # "unreproduced-failure", inconclusive) and the case is kept under .work/ for inspection.
            stats["inconclusive"] += 1
            stats["classes"]["unreproduced-failure"] = stats["classes"].get("unreproduced-failure", 0) + 1
            try:
                WORK.mkdir(exist_ok=True)
                (WORK / f"unreproduced-{check.pid}-{sub.name}-{case_hash(case)}.json").write_text(json.dumps(
                    {"property": check.pid, "sub": sub.name, "case": case, "first_seen": [v.msg for v in (best["viol"] or [])][:3]}, default=str))
            except OSError:
                pass
            print(f"NOTE: {check.pid}/{sub.name}: a failing case did not fail again when re-executed three times from its saved form "
                  f"(counted inconclusive): {[v.msg for v in (best['viol'] or [])][:1]}", file=sys.stderr)
    stats["distinct_nontrivial"] = len(stats["nontrivial_hashes"])
    stats["nontrivial_hashes"] = sorted(stats["nontrivial_hashes"])
    return stats


def shard_main(check: Check, tier: str, seed: int, shard: int, nshards: int, only: str | None, out: Path) -> None:
    if check.setup:
        check.setup()
    try:
        import resource

        # address-space ceiling per shard (children such as the libFuzzer engine lift it again: the hard limit is untouched)
        _soft, hard = resource.getrlimit(resource.RLIMIT_AS)
        resource.setrlimit(resource.RLIMIT_AS, (6 * 2**30, hard))
    except Exception:  # noqa: BLE001
        pass
    res = []
    for sub in check.subchecks:
        if only and sub.name not in only.split(",") and not any(sub.name.startswith(o[:-1]) for o in only.split(",") if o.endswith("*")):
            continue
        ns = sub.shards or nshards
        if shard >= ns:
            continue
        t0 = time.monotonic()
        try:
            r = _run_sub_shard(check, sub, tier, seed, shard, ns)
        except BaseException as e:  # noqa: BLE001
            r = {"sub": sub.name, "evaluations": 0, "nontrivial_hashes": [], "classes": {}, "samples": [],
                 "inconclusive": 0, "known": {}, "failure": None, "distinct_nontrivial": 0,
                 "errors": ["".join(traceback.format_exception(e))[-3000:]]}
        r["wall_s"] = time.monotonic() - t0
        res.append(r)
    out.write_text(json.dumps(res, default=str))


# ------------------------------------------------------------------------------------------
# parent


def _env() -> dict:
    env = dict(os.environ)
    src = os.environ.get("REPID_SRC", "/repo")
    deps = str(ROOT / ".deps")
    env["PYTHONPATH"] = os.pathsep.join([src, str(ROOT), deps])
    env["PYTHONHASHSEED"] = "0"
    env["TZ"] = "UTC"
    env["ALEKSUL_REPID_VERIF"] = "1"
    env.setdefault("MALLOC_ARENA_MAX", "2")  # (thread-heavy cases: glibc would reserve 64 MiB of address space per thread)
    env.setdefault("PYTHONWARNINGS", "ignore")
    return env


def load_check(pid: str) -> Check:
    import importlib

    mod = importlib.import_module(f"harness.checks.{pid.lower()}")
    return mod.CHECK  # type: ignore[no-any-return]


def parent_main(pid: str, tier: str, seed: int, only: str | None = None, nshards: int = NSHARDS) -> int:
    t0 = time.monotonic()
    WORK.mkdir(exist_ok=True)
    REPLAYS.mkdir(exist_ok=True)
    EVIDENCE.mkdir(exist_ok=True)
    workdir = WORK / f"{pid}-{os.getpid()}"
    workdir.mkdir(parents=True, exist_ok=True)
    check = load_check(pid)
    procs = []
    for sh in range(nshards):
        out = workdir / f"shard{sh}.json"
        cmd = [sys.executable, "-m", "harness.run", pid, "--tier", tier, "--shard", str(sh),
               "--nshards", str(nshards), "--out", str(out), "--seed", str(seed)]
        if only:
            cmd += ["--only", only]
        # (the shard's output goes to a file, not a pipe: the shards are collected one after the other, and a shard that has
        #  filled a pipe nobody is reading yet would stand still until its turn - chatty thorough runs were serialised that way)
        logf = open(workdir / f"shard{sh}.log", "w")
        procs.append((sh, out, subprocess.Popen(cmd, cwd=str(ROOT), env=_env(), stdout=logf, stderr=subprocess.STDOUT, text=True), logf))
    errors: list[str] = []
    merged: dict[str, dict] = {}
    for sh, out, p, logf in procs:
        p.wait()
        logf.close()
        logp = workdir / f"shard{sh}.log"
        try:
            with open(logp, "rb") as fh:
                fh.seek(max(0, logp.stat().st_size - 4000))
                so = fh.read().decode("utf-8", "replace")
            logp.unlink()
        except OSError:
            so = ""
        if p.returncode != 0 or not out.exists():
            errors.append(f"shard {sh} exited {p.returncode}: {so[-2000:]}")
            continue
        for r in json.loads(out.read_text()):
            m = merged.setdefault(r["sub"], {"evaluations": 0, "hashes": set(), "classes": {}, "samples": [],
                                             "inconclusive": 0, "known": {}, "failures": [], "wall_s": 0.0})
            m["evaluations"] += r["evaluations"]
            m["hashes"].update(r["nontrivial_hashes"])
            for k, v in r["classes"].items():
                m["classes"][k] = m["classes"].get(k, 0) + v
            if len(m["samples"]) < 4:
                m["samples"].extend(r["samples"][: 4 - len(m["samples"])])
            m["inconclusive"] += r["inconclusive"]
            for k, v in r["known"].items():
                m["known"][k] = m["known"].get(k, 0) + v
            if r["failure"]:
                m["failures"].append(r["failure"])
            m["wall_s"] = max(m["wall_s"], r.get("wall_s", 0.0))
            for e in r["errors"]:
                errors.append(f"[{r['sub']} shard {sh}] {e}")
        try:
            out.unlink()
        except OSError:
            pass
    try:
        workdir.rmdir()
    except OSError:
        pass

    # ---- report
    violations = 0
    lines: list[str] = []
    known_all: dict[str, int] = {}
    for subname, m in merged.items():
        for k, v in m["known"].items():
            known_all[k] = known_all.get(k, 0) + v
        if m["failures"]:
            # smallest failing case first
            m["failures"].sort(key=lambda f: len(json.dumps(f["case"], default=str)))
            f = m["failures"][0]
            violations += 1
            h = case_hash(f["case"])
            path = REPLAYS / f"{pid}-{subname}-{h}.json"
            path.write_text(json.dumps({"property": pid, "sub": subname, "case": f["case"],
                                        "violations": f["violations"]}, indent=1, default=str))
            for v in f["violations"][:3]:
                lines.append(f"  [{subname}] {v['sub']}: {v['msg']}")
            lines.append(f"VIOLATION property={pid} replay={path.relative_to(ROOT) if path.is_relative_to(ROOT) else path}")
    known_entries = {e["id"]: e for e in load_known(pid)}
    for kid, cnt in sorted(known_all.items()):
        e = known_entries.get(kid, {})
        print(f"KNOWN-FINDING: property={pid} {e.get('what', kid)} (id={kid}, hit {cnt}x this run)")

    total_eval = sum(m["evaluations"] for m in merged.values())
    total_nt = sum(len(m["hashes"]) for m in merged.values())
    samples = []
    for subname, m in merged.items():
        for s in m["samples"][:2]:
            samples.append({"sub": subname, "case": s})
    per_sub = {
        s: {
            "evaluations": m["evaluations"],
            "distinct_nontrivial": len(m["hashes"]),
            "classes": dict(sorted(m["classes"].items())),
            "inconclusive": m["inconclusive"],
            "known_finding_hits": m["known"],
            "slowest_shard_s": round(m["wall_s"], 2),
        }
        for s, m in merged.items()
    }
    exhaustive_subs = [s.name for s in check.subchecks if s.exhaustive and s.name in merged and (tier == "thorough")]
    ev = {
        "property_id": pid,
        "tier": tier,
        "seed": seed,
        "level": check.level,
        "coverage": {
            "evaluations": total_eval,
            "distinct_nontrivial": total_nt,
            "rule": check.rule,
            "samples": samples,
            "per_subcheck": per_sub,
            "inconclusive": sum(m["inconclusive"] for m in merged.values()),
            "known_finding_exclusions": known_all,
            "exhaustive": False,
            "exhaustive_subchecks": exhaustive_subs,
            "shards": nshards,
        },
        "assumptions": check.assumptions,
        "wall_s": round(time.monotonic() - t0, 2),
        "violations": violations,
    }
    (EVIDENCE / f"{pid}.json").write_text(json.dumps(ev, indent=1, default=str))

    for ln in lines:
        print(ln)
    print(f"{pid} tier={tier} seed={seed}: evaluations={total_eval} distinct_nontrivial={total_nt} "
          f"violations={violations} inconclusive={ev['coverage']['inconclusive']} wall={ev['wall_s']}s")
    if errors:
        for e in errors[:10]:
            print("HARNESS-ERROR:", e, file=sys.stderr)
        if violations:
            return 1
        return 2
    if violations:
        return 1
    if total_eval == 0:
        print("HARNESS-ERROR: nothing evaluated", file=sys.stderr)
        return 2
    return 0


def replay_main(pid: str, path: str) -> int:
    check = load_check(pid)
    if check.setup:
        check.setup()
    data = json.loads(Path(path).read_text())
    sub = next((s for s in check.subchecks if s.name == data["sub"]), None)
    if sub is None:
        print(f"HARNESS-ERROR: unknown sub-check {data['sub']}", file=sys.stderr)
        return 2
    known = load_known(pid)
    out = sub.run(data["case"])
    bad = [v for v in out.violations if match_known(v, known) is None]
    for v in out.violations:
        tag = "" if v in bad else " (known finding)"
        print(f"  [{sub.name}] {v.sub}: {v.msg}{tag}")
    if bad:
        print(f"VIOLATION property={pid} replay={path}")
        return 1
    print(f"{pid} replay {path}: no violation")
    return 0
