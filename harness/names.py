"""Legal but unusual queue / actor (topic) / message names.

repid accepts names matching [a-zA-Z_][a-zA-Z0-9_-]* and ids matching [a-zA-Z0-9_-]+.  The harness's
own names (q0, a_plain, j3) never contain a dash, an upper-case letter or a leading underscore, never
equal a marker word of the Redis / RabbitMQ key encodings (d, n, dead, delayed, q, m), are never
prefixes of each other and are short.  A generated case may therefore carry a "names" style; the case
is rewritten once, at generation time, so the replay file shows the literal names.
"""

STYLES = ["dash", "upper", "marker", "prefix", "long", "under"]

_POOLS = {
    "marker": {"q": ["d", "n", "dead", "delayed", "q", "m", "processing"], "t": ["n", "d", "dead", "m", "q", "delayed", "unacked"],
               "i": ["dead", "d", "n", "0", "5", "1", "m", "q", "delayed"]},
    "prefix": {"q": ["q", "qq", "qqq", "qqqq", "qqqqq", "qqqqqq"], "t": ["a", "aa", "aaa", "aaaa", "aaaaa", "aaaaaa", "aaaaaaa"],
               "i": []},
    "under": {"q": ["_", "__", "___", "____", "_____"], "t": ["_", "_-", "_--", "__", "_-_", "__-", "_---"], "i": []},
}


class Renamer:
    def __init__(self, style: str):
        assert style in STYLES, style
        self.style = style
        self.seen: dict[str, dict[str, str]] = {"q": {}, "t": {}, "i": {}}

    def _pooled(self, kind: str, s: str) -> str:
        m = self.seen[kind]
        if s not in m:
            i = len(m)
            pool = _POOLS[self.style][kind]
            if i < len(pool):
                m[s] = pool[i]
            elif kind == "i":
                m[s] = {"prefix": "1" * (i + 1), "under": "-" * (i + 1)}.get(self.style, f"{i}{i}")
            else:
                m[s] = s  # more names than the pool holds: the harness's own name
        return m[s]

    def _f(self, kind: str, s: str) -> str:
        if self.style in _POOLS:
            return self._pooled(kind, s)
        self.seen[kind][s] = r = self._g(kind, s)
        return r

    def _g(self, kind: str, s: str) -> str:
        if self.style == "dash":
            return ("-" + s) if kind == "i" else s.replace("_", "-") + "-"
        if self.style == "upper":
            return s.upper()
        if self.style == "long":
            return s + "_" + "x" * 200
        raise AssertionError(self.style)

    def queue(self, s: str) -> str:
        return self._f("q", s)

    def topic(self, s: str) -> str:
        return self._f("t", s)

    def id(self, s: str) -> str:
        return self._f("i", s)


def rename_worker_case(case: dict, style: str) -> dict:
    """Rewrite a worker scenario (actors / jobs) in place."""
    r = Renamer(style)
    for a in case["actors"]:
        a["name"], a["queue"] = r.topic(a["name"]), r.queue(a.get("queue", "default"))
    for j in case["jobs"]:
        j["id"] = r.id(j["id"])
    for j in case["jobs"]:
        j["actor"] = r.topic(j["actor"])
        j["queue"] = r.queue(j.get("queue", "default"))
        if "after" in j:
            j["after"] = r.id(j["after"])
        if isinstance(j.get("args"), dict) and "id_" in j["args"]:
            j["args"] = {**j["args"], "id_": r.id(j["args"]["id_"])}
    case["names"], case["renamed"] = style, r.seen
    return case


def rename_history(case: dict, style: str) -> dict:
    """Rewrite a broker history (ops with q / topic / topics / id) in place; ids the interpreter makes up follow case['names']."""
    r = Renamer(style)
    for op in case["ops"]:
        if "q" in op:
            op["q"] = r.queue(op["q"])
        if op.get("topic") is not None:
            op["topic"] = r.topic(op["topic"])
        if op.get("topics"):
            op["topics"] = [r.topic(t) for t in op["topics"]]
        if op.get("id"):
            op["id"] = r.id(op["id"])
    case["names"], case["renamed"] = style, r.seen
    return case


def renamed(case: dict, kind: str, s: str) -> str:
    """What the harness's own name `s` (kind q / t / i) is called in this case."""
    return case.get("renamed", {}).get(kind, {}).get(s, s)


def auto_id(style: str | None, seq: int) -> str:
    """The id of the seq-th enqueued message of a history (m<seq> without a style)."""
    base = f"m{seq}"
    if not style:
        return base
    if style == "marker":
        pool = _POOLS["marker"]["i"]
        return pool[seq] if seq < len(pool) else f"{seq}"
    if style == "prefix":
        return "1" * (seq + 1)
    if style == "under":
        return "-" * (seq + 1) if seq % 2 else "_" * (seq + 1)
    return Renamer(style).id(base)
