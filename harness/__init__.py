"""Verification harness for aleksul/repid (property-based testing / fuzzing).

See /verif/DESIGN.md.  Everything here runs under /venv/bin/python with
PYTHONPATH=<repid source>:/verif.
"""
