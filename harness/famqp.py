"""In-process model of a RabbitMQ server behind the aiormq channel surface repid calls (DESIGN.md §2.4).

Server semantics modelled (RabbitMQ documentation):
  * default-exchange routing by queue name; mandatory publish to a missing queue is returned;
  * classic queues with ``x-max-priority`` (priority capped, absent = 0): strict priority between
    levels, FIFO inside a level (ordered by publish sequence; a requeued message returns to its
    original position);
  * per-message ``expiration`` (integer milliseconds): a message is dead-lettered / dropped only when
    it reaches the head of its priority level (documented head-of-line behaviour); levels expire
    independently (the reading least likely to raise an alarm);
  * ``x-dead-letter-exchange ""`` + ``x-dead-letter-routing-key``; nack/reject(requeue=False) dead-letters;
  * per-consumer prefetch fixed at basic_consume time from the channel's current non-global QoS;
    round-robin between consumers with capacity; a delivered, unacked message belongs to one channel;
  * closing / losing a connection requeues its unacked deliveries and removes its consumers.
"""
from __future__ import annotations

import asyncio
import copy
import itertools
from typing import Any, Callable

from aiormq.abc import DeliveredMessage
from aiormq.exceptions import ChannelInvalidStateError
from pamqp import commands as spec
from pamqp.header import ContentHeader


class Msg:
    def __init__(self, seq: int, body: bytes, props: Any, expires_at: float | None) -> None:
        self.seq = seq
        self.body = body
        self.props = props
        self.expires_at = expires_at
        self.redelivered = False


class Q:
    def __init__(self, name: str, args: dict | None) -> None:
        self.name = name
        self.args = dict(args or {})
        self.levels: dict[int, list[Msg]] = {}
        self.consumers: list[tuple["Channel", str]] = []
        self.rr = 0

    def prio(self, m: Msg) -> int:
        mp = self.args.get("x-max-priority")
        if mp is None:
            return 0
        return min(int(m.props.priority or 0), int(mp))

    def insert(self, m: Msg) -> None:
        lvl = self.levels.setdefault(self.prio(m), [])
        lvl.append(m)
        lvl.sort(key=lambda x: x.seq)

    def all(self) -> list[Msg]:
        out: list[Msg] = []
        for p in sorted(self.levels, reverse=True):
            out.extend(self.levels[p])
        return out

    def __len__(self) -> int:
        return sum(len(v) for v in self.levels.values())


class Server:
    def __init__(self, now: Callable[[], float]) -> None:
        self.now = now  # loop time (seconds)
        self.queues: dict[str, Q] = {}
        self._seq = itertools.count()
        self._timer: asyncio.TimerHandle | None = None
        self._kicked = False
        self.dropped: list[Msg] = []  # expired / rejected without DLX (lost by design of the topology)
        self.delivery_latency: Callable[[], float] = lambda: 0.0
        # RabbitMQ does not order a publisher confirm against the Basic.Deliver of the same message to a consumer on the
        # same connection: when set, the delivery callback runs before basic_publish returns (else after)
        self.slow_confirm = False
        self.channel_errors: list = []  # (time, channel number, text) of channels the server closed after a protocol error

    def declare(self, name: str, args: dict | None) -> None:
        if name not in self.queues:
            self.queues[name] = Q(name, args)

    def delete_queue(self, name: str) -> int:
        """The queue disappears (deleted by an operator / another client): its consumers get a server-side Basic.Cancel."""
        q = self.queues.pop(name, None)
        if q is None:
            return 0
        for ch, tag in q.consumers:
            ch.consumers.pop(tag, None)
        return len(q)

    def publish(self, rk: str, body: bytes, props: Any) -> bool:
        q = self.queues.get(rk)
        if q is None:
            return False
        props = copy.copy(props)
        exp = None
        if props.expiration is not None:
            exp = self.now() + int(props.expiration) / 1000.0
        q.insert(Msg(next(self._seq), body, props, exp))
        self.kick()
        return True

    def dead_letter(self, q: Q, m: Msg) -> None:
        if "x-dead-letter-exchange" not in q.args:
            self.dropped.append(m)
            return
        rk = q.args.get("x-dead-letter-routing-key", q.name)
        tq = self.queues.get(rk)
        if tq is None:
            self.dropped.append(m)
            return
        props = copy.copy(m.props)
        props.expiration = None  # RabbitMQ removes the per-message TTL on dead-lettering
        tq.insert(Msg(next(self._seq), m.body, props, None))

    def requeue(self, q: Q, m: Msg) -> None:
        m.redelivered = True
        if self.queues.get(q.name) is q:
            q.insert(m)
        self.kick()

    def kick(self) -> None:
        if not self._kicked:
            self._kicked = True
            asyncio.get_event_loop().call_soon(self.dispatch)

    def dispatch(self) -> None:
        self._kicked = False
        now = self.now()
        nxt: float | None = None
        changed = True
        while changed:
            changed = False
            nxt = None
            for q in list(self.queues.values()):
                for p in sorted(q.levels, reverse=True):
                    lvl = q.levels[p]
                    while lvl and lvl[0].expires_at is not None and lvl[0].expires_at <= now:
                        m = lvl.pop(0)
                        self.dead_letter(q, m)
                        changed = True
                    if lvl and lvl[0].expires_at is not None:
                        nxt = lvl[0].expires_at if nxt is None else min(nxt, lvl[0].expires_at)
                    if not lvl:
                        del q.levels[p]
                while len(q) and q.consumers:
                    n = len(q.consumers)
                    delivered = False
                    for i in range(n):
                        ch, tag = q.consumers[(q.rr + i) % n]
                        if ch.capacity(tag):
                            q.rr = (q.rr + i + 1) % n
                            p = max(q.levels)
                            m = q.levels[p].pop(0)
                            if not q.levels[p]:
                                del q.levels[p]
                            ch.deliver(tag, q, m)
                            delivered = True
                            changed = True
                            break
                    if not delivered:
                        break
        if self._timer is not None:
            self._timer.cancel()
            self._timer = None
        if nxt is not None:
            self._timer = asyncio.get_event_loop().call_at(max(nxt, now), self.dispatch)


class Channel:
    _numbers = itertools.count(1)

    def __init__(self, conn: "Conn") -> None:
        self.conn = conn
        self.s = conn.s
        self.number = next(Channel._numbers)
        self.consumers: Any = {}
        self.closed = False
        self.qos = 0
        self._tags = itertools.count(1)
        self._ctags = itertools.count(1)
        self.unacked: dict[int, tuple[Q, Msg, str]] = {}
        self.cprefetch: dict[str, int] = {}
        self.ncalls = 0

    @property
    def is_closed(self) -> bool:
        return self.closed or self.conn.closed

    # -- server side
    def capacity(self, ctag: str) -> bool:
        p = self.cprefetch.get(ctag, 0)
        return p == 0 or sum(1 for (_, _, c) in self.unacked.values() if c == ctag) < p

    def deliver(self, ctag: str, q: Q, m: Msg) -> None:
        dt = next(self._tags)
        self.unacked[dt] = (q, m, ctag)
        dm = DeliveredMessage(
            delivery=spec.Basic.Deliver(consumer_tag=ctag, delivery_tag=dt, redelivered=m.redelivered,
                                        exchange="", routing_key=q.name),
            header=ContentHeader(body_size=len(m.body), properties=copy.copy(m.props)),
            body=m.body,
            channel=self,  # type: ignore[arg-type]
        )
        loop = asyncio.get_event_loop()
        lat = self.s.delivery_latency()

        def hand_over() -> None:
            if self.is_closed or self.conn.dead:
                return
            cb = self.consumers.get(ctag)
            if cb is not None:
                loop.create_task(cb(dm))

        if lat > 0:
            loop.call_later(lat, hand_over)
        else:
            hand_over()

    def _protocol_error(self, text: str) -> None:
        """The server closes the channel (a channel-level exception, e.g. 406 PRECONDITION_FAILED): its consumers are gone, what
        it held unacknowledged goes back to the queues, every later command on it fails.  Acknowledgements have no reply, so the
        call that caused it does not raise."""
        self.s.channel_errors.append((self.s.now(), self.number, text))
        self.closed = True
        for q in self.s.queues.values():
            q.consumers = [(ch, t) for (ch, t) in q.consumers if ch is not self]
        for dt in list(self.unacked):
            self._back(dt, True)
        self.s.kick()

    def _settle(self, dt: int) -> bool:
        """True if the delivery tag is outstanding on this channel; an unknown tag (never delivered here, or settled before) is a
        protocol error - RabbitMQ answers "PRECONDITION_FAILED - unknown delivery tag" and closes the channel."""
        if dt not in self.unacked:
            if not self.closed:
                self._protocol_error(f"PRECONDITION_FAILED - unknown delivery tag {dt}")
            return False
        return True

    def _back(self, dt: int, requeue: bool) -> None:
        e = self.unacked.pop(dt, None)
        if e is None:
            return
        q, m, _ = e
        if requeue:
            self.s.requeue(q, m)
        else:
            self.s.dead_letter(q, m)
        self.s.kick()

    # -- client side (aiormq surface)
    async def _send(self, effect: Callable[[], Any]) -> Any:
        """One request frame.  aiormq puts the frame on its write queue before the call suspends for the first time, so once a
        call has started the request reaches the server even if the caller is cancelled while it waits for the write to drain or
        for the reply; frames of one connection arrive in the order they were sent.  Returns the effect's result (or raises what
        it raised) once the frame has arrived."""
        if self.conn.dead or self.is_closed:
            raise ChannelInvalidStateError("channel is closed")
        loop = asyncio.get_event_loop()
        t = max(self.conn.wire_t, loop.time() + self.conn.lat())
        self.conn.wire_t = t
        fut: asyncio.Future = loop.create_future()
        fut.add_done_callback(lambda f: f.cancelled() or f.exception())  # (a cancelled caller never looks at it)

        def arrive() -> None:
            if fut.done():
                return
            if self.conn.dead or self.is_closed:
                fut.set_exception(ChannelInvalidStateError("channel is closed"))  # the frame never left the dead process
                return
            try:
                fut.set_result(effect())
            except Exception as e:  # noqa: BLE001
                fut.set_exception(e)

        if t <= loop.time():
            arrive()
        else:
            loop.call_at(t, arrive)
        return await asyncio.shield(fut)

    async def _drain(self) -> None:
        """A settlement has no reply; the call returns when the client's write has drained.  Nothing orders that against what the
        server sends meanwhile: in the slow mode a redelivery caused by the settlement reaches the consumer callback first."""
        for _ in range(4 if self.s.slow_confirm else 1):
            await asyncio.sleep(0)

    async def _reply(self) -> None:
        await asyncio.sleep(self.conn.lat())
        if self.conn.dead or self.is_closed:
            raise ChannelInvalidStateError("channel is closed")

    async def basic_publish(self, body: bytes, *, exchange: str = "", routing_key: str = "", properties: Any = None,
                            mandatory: bool = False, immediate: bool = False, timeout: Any = None, wait: bool = True) -> Any:
        if exchange != "":
            raise NotImplementedError("only the default exchange is modelled")
        ok = await self._send(lambda: self.s.publish(routing_key, body, properties or spec.Basic.Properties()))
        self.ncalls += 1
        if self.s.slow_confirm:
            await asyncio.sleep(0)
            await asyncio.sleep(0)
        await self._reply()
        if ok:
            return spec.Basic.Ack(delivery_tag=0)
        return spec.Basic.Return(reply_code=312, reply_text="NO_ROUTE", exchange=exchange, routing_key=routing_key)

    def _upto(self, delivery_tag: int, multiple: bool) -> list[int]:
        """The delivery tags a settlement covers: with `multiple` every outstanding delivery of the *channel* up to and including the
        tag (whichever consumer of the channel it went to); tag 0 with `multiple` means all of them."""
        if not multiple:
            return [delivery_tag] if self._settle(delivery_tag) else []
        if delivery_tag != 0 and not self._settle(delivery_tag):
            return []
        return sorted(t for t in self.unacked if delivery_tag == 0 or t <= delivery_tag)

    async def basic_ack(self, delivery_tag: int, multiple: bool = False, wait: bool = True) -> None:
        def effect() -> None:
            for t in self._upto(delivery_tag, multiple):
                self.unacked.pop(t, None)
            self.s.kick()

        await self._send(effect)
        self.ncalls += 1
        await self._drain()

    async def basic_nack(self, delivery_tag: int, multiple: bool = False, requeue: bool = True, wait: bool = True) -> None:
        def effect() -> None:
            for t in self._upto(delivery_tag, multiple):
                self._back(t, requeue)

        await self._send(effect)
        self.ncalls += 1
        await self._drain()

    async def basic_reject(self, delivery_tag: int, *, requeue: bool = True, wait: bool = True) -> None:
        await self._send(lambda: self._settle(delivery_tag) and self._back(delivery_tag, requeue))
        self.ncalls += 1
        await self._drain()

    async def basic_qos(self, *, prefetch_size: int | None = None, prefetch_count: int | None = None,
                        global_: bool = False, timeout: Any = None) -> Any:
        if global_:
            raise NotImplementedError

        def effect() -> None:
            self.qos = prefetch_count or 0

        await self._send(effect)
        self.ncalls += 1
        await self._reply()
        return spec.Basic.QosOk()

    async def basic_consume(self, queue: str, consumer_callback: Any, *, no_ack: bool = False, exclusive: bool = False,
                            arguments: Any = None, consumer_tag: str | None = None, timeout: Any = None) -> Any:
        if no_ack:
            raise NotImplementedError
        tag = consumer_tag or f"ctag{self.number}.{next(self._ctags)}"
        if tag in self.consumers:
            raise RuntimeError("duplicate consumer tag")
        self.consumers[tag] = consumer_callback

        def effect() -> None:
            if queue not in self.s.queues:
                self.consumers.pop(tag, None)
                from aiormq.exceptions import ChannelNotFoundEntity

                # (RabbitMQ also closes the channel on a 404; the model only reports the error)
                raise ChannelNotFoundEntity(f"NOT_FOUND - no queue '{queue}' in vhost '/'")
            self.cprefetch[tag] = self.qos
            self.s.queues[queue].consumers.append((self, tag))
            self.s.kick()

        await self._send(effect)
        self.ncalls += 1
        await self._reply()
        return spec.Basic.ConsumeOk(consumer_tag=tag)

    async def basic_cancel(self, consumer_tag: str, *, nowait: bool = False, timeout: Any = None) -> Any:
        def effect() -> None:
            for q in self.s.queues.values():
                q.consumers = [(c, t) for (c, t) in q.consumers if not (c is self and t == consumer_tag)]

        await self._send(effect)
        await self._reply()
        self.consumers.pop(consumer_tag, None)  # aiormq pops on Basic.CancelOk
        self.ncalls += 1
        return spec.Basic.CancelOk(consumer_tag=consumer_tag)

    async def queue_declare(self, queue: str = "", *, passive: bool = False, durable: bool = False,
                            exclusive: bool = False, auto_delete: bool = False, nowait: bool = False,
                            arguments: dict | None = None, timeout: Any = None) -> Any:
        def effect() -> Any:
            self.s.declare(queue, arguments)
            q = self.s.queues[queue]
            return spec.Queue.DeclareOk(queue=queue, message_count=len(q), consumer_count=len(q.consumers))

        r = await self._send(effect)
        self.ncalls += 1
        await self._reply()
        return r

    async def queue_purge(self, queue: str = "", nowait: bool = False, timeout: Any = None) -> Any:
        def effect() -> int:
            n = 0
            if queue in self.s.queues:
                n = len(self.s.queues[queue])
                self.s.queues[queue].levels.clear()
            return n

        n = await self._send(effect)
        await self._reply()
        return spec.Queue.PurgeOk(message_count=n)

    async def queue_delete(self, queue: str = "", if_unused: bool = False, if_empty: bool = False,
                           nowait: bool = False, timeout: Any = None) -> Any:
        n = await self._send(lambda: self.s.delete_queue(queue))
        await self._reply()
        return spec.Queue.DeleteOk(message_count=n)


class Conn:
    def __init__(self, s: Server, name: str, lat: Callable[[], float] | None = None) -> None:
        self.s = s
        self.name = name
        self.lat = lat or (lambda: 0.0)
        self.chs: list[Channel] = []
        self.closed = False
        self.dead = False
        self.wire_t = 0.0  # arrival time of the connection's latest frame (frames keep their order)

    async def channel(self, *a: Any, **k: Any) -> Channel:
        await asyncio.sleep(0)
        c = Channel(self)
        self.chs.append(c)
        return c

    def _server_side_close(self) -> None:
        for c in self.chs:
            c.closed = True
            for q in self.s.queues.values():
                q.consumers = [(ch, t) for (ch, t) in q.consumers if ch is not c]
            for dt in list(c.unacked):
                c._back(dt, True)
        self.s.kick()

    async def close(self, *a: Any, **k: Any) -> None:
        await asyncio.sleep(0)
        if not self.closed:
            self.closed = True
            self._server_side_close()

    def kill(self) -> None:
        """Process death: no further command reaches the server; the server notices the lost connection."""
        self.dead = True
        self.closed = True
        self._server_side_close()

    @property
    def is_closed(self) -> bool:
        return self.closed


# ------------------------------------------------------------------------------------------------
# wiring: aiormq.connect(dsn) -> Conn on the server registered for this case

_CTX: dict[str, Any] = {"server": None, "lat": {}, "conns": []}


def set_context(server: Server, lat: dict[str, Callable[[], float]] | None = None) -> None:
    _CTX["server"] = server
    _CTX["lat"] = lat or {}
    _CTX["conns"] = []


async def fake_connect(dsn: str, *a: Any, **k: Any) -> Conn:
    await asyncio.sleep(0)
    name = str(dsn).rsplit("/", 1)[-1] or "c"
    c = Conn(_CTX["server"], name, _CTX["lat"].get(name))
    _CTX["conns"].append(c)
    return c


def install() -> None:
    import aiormq

    aiormq.connect = fake_connect  # type: ignore[assignment]
