"""CLI: python -m harness.run <ID> --tier quick|thorough [--replay FILE] [--only SUB]"""
from __future__ import annotations

import argparse
import os
import subprocess
import sys
from pathlib import Path

from harness import core


def main() -> int:
    ap = argparse.ArgumentParser()
    ap.add_argument("pid")
    ap.add_argument("--tier", default=os.environ.get("VERIF_TIER", "quick"), choices=["quick", "thorough"])
    ap.add_argument("--seed", type=int, default=None)
    ap.add_argument("--replay")
    ap.add_argument("--only")
    ap.add_argument("--shard", type=int)
    ap.add_argument("--nshards", type=int, default=core.NSHARDS)
    ap.add_argument("--out")
    a = ap.parse_args()
    seed = a.seed if a.seed is not None else int(os.environ.get("VERIF_SEED", "1") or "1")

    if a.shard is None and os.environ.get("_VERIF_CHILD") != "1":
        # re-exec once with the pinned environment (PYTHONHASHSEED must be set before start)
        env = core._env()
        env["_VERIF_CHILD"] = "1"
        return subprocess.call([sys.executable, "-m", "harness.run", *sys.argv[1:]], env=env, cwd=str(core.ROOT))

    try:
        if a.replay:
            return core.replay_main(a.pid, a.replay)
        if a.shard is not None:
            check = core.load_check(a.pid)
            core.shard_main(check, a.tier, seed, a.shard, a.nshards, a.only, Path(a.out))
            return 0
        return core.parent_main(a.pid, a.tier, seed, a.only, a.nshards)
    except core.HarnessError as e:
        print("HARNESS-ERROR:", e, file=sys.stderr)
        return 2


if __name__ == "__main__":
    try:
        rc = main()
    except SystemExit:
        raise
    except BaseException as e:  # noqa: BLE001
        import traceback

        traceback.print_exc()
        print("HARNESS-ERROR:", repr(e), file=sys.stderr)
        rc = 2
    sys.exit(rc)
