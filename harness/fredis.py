"""In-process model of the Redis commands repid uses (DESIGN.md §2.3).

Written from the Redis command reference; nothing here is specific to repid.  `Server` holds
the keyspace and applies one command (or one MULTI/EXEC block) atomically at one instant.
`Client` has the part of the ``redis.asyncio.Redis`` surface that repid calls.  Every round
trip awaits a generated latency before and after the atomic server step, which is how
interleavings of several clients ("processes") are permuted.
"""
from __future__ import annotations

import asyncio
import fnmatch
from typing import Any, Callable


def _b(v: Any) -> bytes:
    if isinstance(v, bytes):
        return v
    if isinstance(v, bool):
        raise TypeError("bool is not a valid redis value")
    if isinstance(v, float):
        return repr(v).encode()
    if isinstance(v, int):
        return str(v).encode()
    if isinstance(v, str):
        return v.encode()
    raise TypeError(f"invalid redis value type {type(v).__name__}")


def _k(v: Any) -> str:
    return v.decode() if isinstance(v, bytes) else str(v)


class WrongType(Exception):
    pass


from redis.exceptions import ConnectionError as RedisConnectionError  # noqa: E402  (what redis-py raises; a subclass of neither OSError nor the builtin)
from redis.exceptions import WatchError  # noqa: E402  (what redis-py raises when a watched key changed before EXEC)


class Server:
    def __init__(self, clock: Callable[[], float]) -> None:
        self.kv: dict[str, Any] = {}  # key -> bytes | list[bytes] | dict (hash) | ZSet
        self.exp: dict[str, float] = {}
        self.ver: dict[str, int] = {}  # key -> modification counter (for WATCH)
        self.clock = clock  # unix seconds (float)
        self.log: list[tuple] = []
        self.record = False
        self.zadd_times: dict[tuple, float] = {}  # (key, member) -> server time of the last ZADD (harness observation)
        self.zadd_clients: dict[tuple, str | None] = {}  # (key, member) -> name of the client that issued it
        self.current_client: str | None = None

    # -- helpers
    def _touch(self, key: str) -> None:
        self.ver[key] = self.ver.get(key, 0) + 1

    def _purge(self) -> None:
        now = self.clock()
        for k, t in list(self.exp.items()):
            if t <= now:
                self.kv.pop(k, None)
                self.exp.pop(k, None)
                self._touch(k)

    def _get(self, key: Any, typ: type, create: bool = False) -> Any:
        self._purge()
        key = _k(key)
        v = self.kv.get(key)
        if v is None:
            if not create:
                return None
            v = typ()
            self.kv[key] = v
            return v
        if not isinstance(v, typ):
            raise WrongType(f"WRONGTYPE key {key} holds {type(v).__name__}")
        return v

    def _drop_if_empty(self, key: Any) -> None:
        key = _k(key)
        v = self.kv.get(key)
        if v is not None and not isinstance(v, bytes) and len(v) == 0:
            del self.kv[key]
            self.exp.pop(key, None)

    # -- generic
    def ping(self) -> bool:
        return True

    def delete(self, *names: Any) -> int:
        self._purge()
        n = 0
        for k in names:
            k = _k(k)
            if self.kv.pop(k, None) is not None:
                n += 1
                self._touch(k)
            self.exp.pop(k, None)
        return n

    def keys(self, match: str | None = None) -> list[bytes]:
        self._purge()
        return [k.encode() for k in sorted(self.kv) if match is None or fnmatch.fnmatchcase(k, match)]

    # -- strings
    def get(self, name: Any) -> bytes | None:
        return self._get(name, bytes)

    def set(self, name: Any, value: Any, ex: Any = None, px: Any = None, exat: Any = None, pxat: Any = None, **kw: Any) -> bool:
        if kw:
            raise NotImplementedError(f"SET options {kw}")
        name = _k(name)
        self.kv[name] = _b(value)
        self.exp.pop(name, None)
        self._touch(name)
        # expiry options as redis-py encodes them (timedelta -> whole seconds / milliseconds, datetime -> int(timestamp()))
        if ex is not None:
            self.exp[name] = self.clock() + float(int(ex.total_seconds()) if hasattr(ex, "total_seconds") else int(ex))
        elif px is not None:
            self.exp[name] = self.clock() + (int(px.total_seconds() * 1000) if hasattr(px, "total_seconds") else int(px)) / 1000.0
        elif exat is not None:
            if hasattr(exat, "timestamp"):
                exat = int(exat.timestamp())  # redis-py: int(datetime.timestamp())
            self.exp[name] = float(exat)
        elif pxat is not None:
            if hasattr(pxat, "timestamp"):
                pxat = int(pxat.timestamp() * 1000)
            self.exp[name] = float(pxat) / 1000.0
        return True

    # -- hashes
    def hsetnx(self, name: Any, key: Any, value: Any) -> int:
        h = self._get(name, dict, create=True)
        k = _b(key)
        if k in h:
            return 0
        h[k] = _b(value)
        self._touch(_k(name))
        return 1

    def hset(self, name: Any, key: Any = None, value: Any = None, mapping: dict | None = None) -> int:
        items = []
        if key is not None:
            items.append((key, value))
        if mapping:
            items += list(mapping.items())
        if not items:
            raise ValueError("'hset' with no key value pairs")
        h = self._get(name, dict, create=True)
        n = 0
        for k, v in items:
            k = _b(k)
            n += k not in h
            h[k] = _b(v)
        self._touch(_k(name))
        return n

    def hdel(self, name: Any, *keys: Any) -> int:
        h = self._get(name, dict)
        if not h:
            return 0
        n = 0
        for k in keys:
            n += h.pop(_b(k), None) is not None
        if n:
            self._touch(_k(name))
        self._drop_if_empty(name)
        return n

    def hget(self, name: Any, key: Any) -> bytes | None:
        h = self._get(name, dict)
        return None if h is None else h.get(_b(key))

    def hmget(self, name: Any, keys: Any, *args: Any) -> list:
        ks = list(keys) if isinstance(keys, (list, tuple)) else [keys]
        ks += list(args)
        return [self.hget(name, k) for k in ks]

    # -- lists (index 0 = head / left)
    def lpush(self, name: Any, *vals: Any) -> int:
        lst = self._get(name, list, create=True)
        for v in vals:
            lst.insert(0, _b(v))
        self._touch(_k(name))
        return len(lst)

    def rpush(self, name: Any, *vals: Any) -> int:
        lst = self._get(name, list, create=True)
        for v in vals:
            lst.append(_b(v))
        self._touch(_k(name))
        return len(lst)

    def lrem(self, name: Any, count: int, value: Any) -> int:
        lst = self._get(name, list)
        if not lst:
            return 0
        v = _b(value)
        n = 0
        if count < 0:
            for i in range(len(lst) - 1, -1, -1):
                if lst[i] == v and n < -count:
                    del lst[i]
                    n += 1
        elif count > 0:
            i = 0
            while i < len(lst) and n < count:
                if lst[i] == v:
                    del lst[i]
                    n += 1
                else:
                    i += 1
        else:
            n = lst.count(v)
            lst[:] = [x for x in lst if x != v]
        if n:
            self._touch(_k(name))
        self._drop_if_empty(name)
        return n

    def lrange(self, name: Any, start: int, end: int) -> list:
        lst = self._get(name, list) or []
        n = len(lst)
        if start < 0:
            start = max(n + start, 0)
        if end < 0:
            end = n + end
        end = min(end, n - 1)
        if start > end or start >= n:
            return []
        return list(lst[start : end + 1])

    def llen(self, name: Any) -> int:
        return len(self._get(name, list) or [])

    # -- sorted sets (dict member -> score)
    def zadd(self, name: Any, mapping: dict, **kw: Any) -> int:
        if kw:
            raise NotImplementedError(f"ZADD options {kw}")
        z = self._get(name, ZSet, create=True)
        n = 0
        for m, s in mapping.items():
            m = _b(m)
            n += m not in z
            z[m] = float(s)
            self.zadd_times[(_k(name), m)] = self.clock()
            self.zadd_clients[(_k(name), m)] = self.current_client
        self._touch(_k(name))
        return n

    def zrem(self, name: Any, *members: Any) -> int:
        z = self._get(name, ZSet)
        if not z:
            return 0
        n = 0
        for m in members:
            n += z.pop(_b(m), None) is not None
        if n:
            self._touch(_k(name))
        self._drop_if_empty(name)
        return n

    def zsorted(self, name: Any) -> list:
        z = self._get(name, ZSet) or {}
        return sorted(z.items(), key=lambda kv: (kv[1], kv[0]))

    def zscore(self, name: Any, member: Any) -> float | None:
        z = self._get(name, ZSet) or {}
        return z.get(_b(member))

    def zrange(self, name: Any, start: Any, end: Any, desc: bool = False, withscores: bool = False,
               byscore: bool = False, bylex: bool = False, offset: int | None = None, num: int | None = None,
               **kw: Any) -> list:
        if desc or withscores or bylex or kw:
            raise NotImplementedError("ZRANGE option not modelled")
        items = self.zsorted(name)
        if byscore:
            (lo, lo_ex), (hi, hi_ex) = _score_bound(start), _score_bound(end)
            sel = [m for m, s in items if (s > lo if lo_ex else s >= lo) and (s < hi if hi_ex else s <= hi)]
            if (offset is None) != (num is None):
                raise ValueError("offset and num must both be given")
            if offset is not None and num is not None:
                sel = sel[offset:] if num < 0 else sel[offset : offset + num]
            return sel
        if offset is not None or num is not None:
            raise ValueError("LIMIT requires BYSCORE/BYLEX")
        n = len(items)
        start, end = int(start), int(end)
        if start < 0:
            start = max(n + start, 0)
        if end < 0:
            end = n + end
        return [m for m, _ in items[start : end + 1]]


class ZSet(dict):
    pass


def _score_bound(x: Any) -> tuple:
    """-> (value, exclusive)"""
    if isinstance(x, bytes):
        x = x.decode()
    if isinstance(x, str) and x.startswith("("):
        return (float(x[1:]), True)
    return (float(x), False)


class Pipe:
    """MULTI/EXEC pipeline: commands are buffered client-side and applied atomically by execute()."""

    def __init__(self, client: "Client", transaction: bool) -> None:
        self.c = client
        self.transaction = transaction
        self.cmds: list[tuple] = []
        self.watched: dict[str, int] | None = None
        self.explicit_multi = False

    async def __aenter__(self) -> "Pipe":
        return self

    async def __aexit__(self, *a: Any) -> None:
        self.cmds = []
        self.watched = None
        self.explicit_multi = False

    async def watch(self, *names: Any) -> bool:
        await self.c._lat()
        if self.watched is None:
            self.watched = {}
        for n in names:
            self.watched[_k(n)] = self.c.s.ver.get(_k(n), 0)
        await self.c._lat()
        return True

    async def unwatch(self) -> bool:
        await self.c._lat()
        self.watched = None
        return True

    def multi(self) -> None:
        self.explicit_multi = True

    def __getattr__(self, name: str) -> Any:
        if name.startswith("_"):
            raise AttributeError(name)
        fn = getattr(self.c.s, name)  # AttributeError for unknown commands

        if self.watched is not None and not self.explicit_multi:
            # redis-py: after WATCH and before MULTI, commands execute immediately
            async def immediate(*a: Any, **k: Any) -> Any:
                await self.c._lat()
                r = fn(*a, **k)
                await self.c._lat()
                return r

            return immediate

        def add(*a: Any, **k: Any) -> "Pipe":
            self.cmds.append((name, a, k))
            return self

        return add

    async def execute(self, raise_on_error: bool = True) -> list:
        cmds, self.cmds = self.cmds, []
        watched, self.watched = self.watched, None
        self.explicit_multi = False
        await self.c._lat()
        s = self.c.s
        if watched is not None and any(s.ver.get(k, 0) != v for k, v in watched.items()):
            await self.c._lat()
            raise WatchError("Watched variable changed.")
        res = []
        s.current_client = self.c.name
        for n, a, k in cmds:
            res.append(getattr(s, n)(*a, **k))
        if s.record:
            s.log.append(("EXEC", self.c.name, [(n, a) for n, a, _ in cmds], res))
        self.c.ncalls += 1
        await self.c._lat(after=True)
        return res


class Client:
    """The subset of redis.asyncio.Redis used by repid.  `lat` yields per-half-round-trip latencies."""

    def __init__(self, server: Server, name: str = "c", lat: Callable[[], float] | None = None) -> None:
        self.s = server
        self.name = name
        self.lat = lat or (lambda: 0.0)
        self.dead = False
        self.ncalls = 0
        self.nrt = 0  # round trips started so far
        self.fail_at: set[int] = set()  # fault injection: these round trips fail with a connection error (transient fault)

    async def _lat(self, after: bool = False) -> None:
        if self.dead:
            raise RedisConnectionError("Connection lost (client is dead)")
        if not after:
            self.nrt += 1
            if self.nrt in self.fail_at:
                raise RedisConnectionError("injected transient connection error")
        await asyncio.sleep(self.lat())
        if self.dead:
            raise RedisConnectionError("Connection lost (client is dead)")

    def pipeline(self, transaction: bool = True, shard_hint: Any = None) -> Pipe:
        return Pipe(self, transaction)

    async def aclose(self, close_connection_pool: bool | None = None) -> None:
        await asyncio.sleep(0)

    close = aclose

    def __getattr__(self, name: str) -> Any:
        if name.startswith("_"):
            raise AttributeError(name)
        fn = getattr(self.s, name)

        async def call(*a: Any, **k: Any) -> Any:
            await self._lat()
            self.s.current_client = self.name
            r = fn(*a, **k)
            if self.s.record:
                self.s.log.append((name, self.name, a, r))
            self.ncalls += 1
            await self._lat(after=True)
            return r

        return call

    async def scan_iter(self, match: str | None = None, count: int | None = None, _type: Any = None) -> Any:
        await self._lat()
        keys = self.s.keys(match)
        await self._lat(after=True)
        for k in keys:
            yield k

    async def zscan_iter(self, name: Any, match: str | None = None, count: int | None = None,
                         score_cast_func: Any = float) -> Any:
        await self._lat()
        items = self.s.zsorted(name)
        await self._lat(after=True)
        for m, sc in items:
            if match is None or fnmatch.fnmatchcase(m.decode(), match):
                yield (m, score_cast_func(sc))
