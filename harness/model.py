"""Reference model of the worker's decision ladder (C02/C04/C06/C13): what the worker must do with each
delivery of a job, derived only from the property statements — not from repid's code."""
from __future__ import annotations

from dataclasses import dataclass, field
from typing import Any


@dataclass
class Step:
    n: int  # delivery index (0-based)
    tried: int  # already_tried carried by this delivery
    kind: str  # success | failure | eager
    op: str  # expected single terminal broker call: ack | nack | reject | requeue
    new_tried: int | None = None  # for requeue: already_tried of the re-queued message
    backoff: float | None = None  # for retry-requeue: policy delay in seconds (None = not a retry)
    resched: bool = False  # requeue is a reschedule of a recurring job
    body_runs: bool = True  # the actor body is entered for this delivery
    duration: float = 0.0  # virtual seconds the attempt itself takes
    result: Any = None  # expected stored result: ("ok", value) | ("err", exc_name, text) | None (nothing new stored)
    outcome: dict = field(default_factory=dict)
    eager_refused: bool = False


def policy_seconds(policy: dict | None, k: int) -> float:
    if policy is None:
        return 0.0
    if policy["kind"] == "table":
        v = policy["values"]
        return float(v[min(max(k, 1), len(v)) - 1])
    exponent = min(k, policy["exp"])
    return float(max(policy["min"], min(policy["mult"] * 2**exponent, policy["max"])))


def _text_of(exc: str, text: str) -> Any:
    if exc == "BadStrError":
        return None  # its text cannot be rendered; whether/what is stored is not constrained
    # str(KeyError('k')) == "'k'"
    if exc == "KeyError":
        return repr(text)
    return text


def chain(job: dict, policy: dict | None, max_deliveries: int = 14) -> tuple[list[Step], str]:
    """Expected deliveries of one job and how the chain ends: 'acked' | 'dead' | 'open' (still scheduled)."""
    steps: list[Step] = []
    tried = 0
    mx = job.get("retries", 0)
    recurring = job.get("defer_by") is not None
    stores = bool(job.get("store_result"))
    attempts = job.get("attempts") or [{"k": "ret", "v": None}]
    timeout = float(job.get("timeout", 600))
    resched_count = 0
    for n in range(max_deliveries):
        o = attempts[min(n, len(attempts) - 1)]
        k = o["k"]
        dur = float(o.get("sleep") or 0.0)
        body = True
        result: Any = None
        kind = None
        eager_action = None
        refused = False
        if job.get("badargs"):
            kind, body = "failure", False
            result = ("err-any",)
        elif k == "depfail":
            kind, body = "failure", False
            result = ("err", o.get("exc", "RuntimeError"), _text_of(o.get("exc", "RuntimeError"), o.get("text", "provider failed")))
        elif k == "ret":
            if dur >= timeout:
                kind, dur, result = "failure", timeout, ("err-timeout",)
            elif isinstance(o.get("v"), dict) and o["v"].get("$unserializable"):
                kind, result = "failure", ("err-any",)  # return value cannot be encoded (TypeError / serialization error)
            else:
                kind, result = "success", ("ok", o.get("v"))
        elif k == "raise":
            if dur >= timeout:
                kind, dur, result = "failure", timeout, ("err-timeout",)
            else:
                kind = "failure"
                result = ("err", o["exc"], _text_of(o["exc"], o.get("text", "")))
        elif k == "timeout":
            kind, dur, result = "failure", timeout + float(o.get("cleanup") or 0.0), ("err-timeout",)
        elif k in ("eager", "depeager"):
            # depeager: the eager response comes from a dependency of the actor (a provider that settles the message itself):
            # the actor body is never entered
            body = k == "eager"
            # set_result / set_exception need result storing; otherwise they raise ValueError inside the actor
            prog = o.get("program", [])
            bad_set = any(s[0] in ("result", "exception") for s in prog) and not stores
            if dur >= timeout:
                kind, dur, result = "failure", timeout, ("err-timeout",)
            elif bad_set:
                kind, result = "failure", ("err", "ValueError", None)
            elif o["action"] == "retry" and tried >= mx:
                kind, result, refused = "failure", ("err", "ValueError", "Max retry limit reached."), True
            else:
                kind, eager_action = "eager", o["action"]
                last = None
                for s in prog:
                    if s[0] == "result":
                        last = ("ok", s[1])
                    elif s[0] == "exception":
                        last = ("err", s[1], _text_of(s[1], s[2]))
                result = last  # None: eager response without set_* stores nothing
        else:
            raise AssertionError(o)

        st = Step(n, tried, kind, "", body_runs=body, duration=dur, result=result, outcome=o, eager_refused=refused)
        if kind == "eager":
            a = eager_action
            if a == "ack":
                st.op = "ack"
                steps.append(st)
                return steps, "acked"
            if a == "nack":
                st.op = "nack"
                steps.append(st)
                return steps, "dead"
            if a == "reject":
                st.op = "reject"
                steps.append(st)
                continue  # same message delivered again, counter unchanged
            if a == "reschedule":
                st.op, st.new_tried, st.resched = "requeue", 0, True
                steps.append(st)
                tried = 0
                resched_count += 1
                if resched_count >= job.get("iterations", 2) and recurring:
                    return steps, "open"
                continue
            if a in ("retry", "force_retry"):
                st.op, st.new_tried = "requeue", tried + 1
                st.backoff = policy_seconds(policy, tried + 1)
                steps.append(st)
                tried += 1
                continue
        if kind == "failure" and tried < mx:
            st.op, st.new_tried, st.backoff = "requeue", tried + 1, policy_seconds(policy, tried + 1)
            steps.append(st)
            tried += 1
            continue
        if recurring:
            st.op, st.new_tried, st.resched = "requeue", 0, True
            steps.append(st)
            tried = 0
            resched_count += 1
            if resched_count >= job.get("iterations", 2):
                return steps, "open"
            continue
        if kind == "success":
            st.op = "ack"
            steps.append(st)
            return steps, "acked"
        st.op = "nack"
        steps.append(st)
        return steps, "dead"
    return steps, "open"


def estimate_time(job: dict, policy: dict | None, steps: list[Step], pickup: float) -> float:
    t = float(job.get("enqueue_at", 0.0))
    if job.get("defer_until") is not None:
        t = max(t, float(job["defer_until"]))
    elif job.get("defer_by") is not None:
        t += float(job["defer_by"])
    for s in steps:
        t += pickup + s.duration
        if s.backoff:
            t += s.backoff
        if s.resched and job.get("defer_by") is not None:
            t += float(job["defer_by"])
    return t
