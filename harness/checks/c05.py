"""C05 — Delayed messages are never delivered early and never forgotten."""
from __future__ import annotations

import asyncio
from datetime import timedelta

from hypothesis import strategies as st

from harness import vclock
from harness.brokers import Env, reset_globals
from harness.core import Check, Outcome, SubCheck

RES = 0.001
HORIZON = 40.0
# bounded delivery latency after the due time with a consumer continuously waiting (constants read from the code)
#   in-memory: delayed -> normal migration every UPDATE_DELAYED_EVERY (1 s) of idle polling (+1 ms poll)
#   redis    : score = ceil(due) (whole seconds) + priority scan with POLLING_WAIT (0.1 s) per empty priority
#   amqp     : server-side expiry at millisecond resolution + delivery
L_LATE = {"mem": 1.15, "redis": 1.0 + 0.65, "amqp": 0.15}

DELTA = st.one_of(
    st.tuples(st.just("past"), st.integers(-10_000_000, 0)),
    st.tuples(st.just("subsecond"), st.integers(1, 999_999)),
    st.tuples(st.just("seconds"), st.integers(1_000_000, 30_000_000)),
    st.tuples(st.just("far"), st.sampled_from([3600, 86400, 366 * 86400, 5 * 366 * 86400]).map(lambda s: s * 1_000_000 + 123_457)),
)


@st.composite
def deliver_case(draw, broker):
    n = draw(st.integers(1, 5))
    msgs = []
    for i in range(n):
        cls, us = draw(DELTA)
        forms = ["net", "net", "until", "job", "netby"] + (["by"] if cls != "past" else []) + (["jobby"] if cls in ("seconds", "far") else []) + (
            ["requeue", "requeue"] if cls in ("subsecond", "seconds") else [])
        msgs.append({"id": f"d{i}", "cls": cls, "delta_us": us, "form": draw(st.sampled_from(forms)),
                     "at": draw(st.one_of(st.just(0.0), st.integers(0, 5_000_000).map(lambda u: u / 1e6))),
                     "prio": draw(st.sampled_from([0, 5, 5, 9]))})
    for i in range(draw(st.integers(0, 3))):
        msgs.append({"id": f"i{i}", "cls": "immediate", "delta_us": None, "form": "plain",
                     "at": draw(st.one_of(st.just(0.0), st.integers(0, 8_000_000).map(lambda u: u / 1e6))),
                     "prio": draw(st.sampled_from([0, 5, 9]))})
    case = {"broker": broker, "seed": draw(st.integers(0, 2**16)), "msgs": msgs, "tz": draw(st.sampled_from([None, None, *vclock.zones(max((m["delta_us"] or 0) for m in msgs) / 86400e6 + 3)])),
            "phase_us": draw(st.integers(0, 999_999)),
            "consumer_at": draw(st.one_of(st.just(0.0), st.integers(0, 6_000_000).map(lambda u: u / 1e6))),
            "max_unacked": draw(st.sampled_from([None, 1, 3]))}
    if broker != "amqp" and draw(st.booleans()):
        # a topic-filtered consumer (what every worker creates) behind a run of delayed messages of a topic it does not serve
        case["filtered"] = True
        case["foreign"] = [draw(st.integers(-5_000_000, 3_000_000))
                           for _ in range(draw(st.sampled_from([0, 1, 3, 9, 10, 11, 12, 20, 25])))]
    if broker != "mem":
        case["lat"] = {"p0": draw(st.lists(st.sampled_from([0.0, 0.001, 0.003]), max_size=10)),
                       "c0": draw(st.lists(st.sampled_from([0.0, 0.001, 0.003]), max_size=20))}
    return case


async def _enqueue(env, conn, m, loop, record):
    from repid import Job, PrioritiesT
    from repid.data._key import RoutingKey
    from repid.data._parameters import DelayProperties, Parameters

    now = vclock.VDateTime.now()
    b = conn.message_broker
    if m["cls"] == "immediate":
        key = RoutingKey(topic="t0", queue="qd", priority=m["prio"], id_=m["id"])
        record[m["id"]] = {"due": None, "enq": loop.time()}
        await b.enqueue(key, "", Parameters())
        return
    d = timedelta(microseconds=m["delta_us"])
    due = now + d
    if m["form"] == "requeue":
        # enqueued as an ordinary message; the consumer that receives it puts it back with a retry time `delta` ahead (what a worker
        # does with a failed attempt) - from then on it is a delayed message due at that time
        key = RoutingKey(topic="t0", queue="qd", priority=m["prio"], id_=m["id"])
        record[m["id"]] = {"due": None, "enq": loop.time(), "requeue_delta_us": m["delta_us"]}
        await b.enqueue(key, "", Parameters())
        return
    if m["form"] == "job":
        # Job(deferred_until=...) needs no sub-second constraint; a past deferred_until is simply "now"
        job = Job("t0", queue="qd", id_=m["id"], deferred_until=due, priority=PrioritiesT(m["prio"]), _connection=conn)
        record[m["id"]] = {"due": vclock.secs(due) if d > timedelta(0) else None, "enq": loop.time()}
        await job.enqueue()
        return
    if m["form"] == "jobby":
        # first run of a recurring job: one period after the job's timestamp
        job = Job("t0", queue="qd", id_=m["id"], deferred_by=d, priority=PrioritiesT(m["prio"]), _connection=conn)
        record[m["id"]] = {"due": vclock.secs(job.timestamp + d), "enq": loop.time()}
        await job.enqueue()
        return
    if m["form"] == "by":
        params = Parameters(delay=DelayProperties(defer_by=d))
        record[m["id"]] = {"due": vclock.secs(params.timestamp + d), "enq": loop.time()}
        await b.enqueue(RoutingKey(topic="t0", queue="qd", priority=m["prio"], id_=m["id"]), "", params)
        return
    if m["form"] == "netby":
        # a retried iteration of a recurring job: it carries its period *and* the time of the retry - the retry time is the due time,
        # wherever the period grid happens to lie (a period of 1 s: grid earlier than a longer back-off; an hour: later)
        from repid.data._parameters import RetriesProperties

        per = timedelta(seconds=1 if m["delta_us"] % 2 else 3600)
        params = Parameters(delay=DelayProperties(defer_by=per, next_execution_time=due), retries=RetriesProperties(max_amount=3, already_tried=1))
        record[m["id"]] = {"due": vclock.secs(due), "enq": loop.time()}
    elif m["form"] == "net":
        params = Parameters(delay=DelayProperties(next_execution_time=due))
        record[m["id"]] = {"due": vclock.secs(due), "enq": loop.time()}
    else:
        params = Parameters(delay=DelayProperties(delay_until=due))
        record[m["id"]] = {"due": vclock.secs(due) if d > timedelta(0) else None, "enq": loop.time()}
    await b.enqueue(RoutingKey(topic="t0", queue="qd", priority=m["prio"], id_=m["id"]), "", params)


async def _deliver(loop, case, out: Outcome):
    reset_globals()
    env = Env(case["broker"], loop, case["seed"])
    lat = case.get("lat") or {}
    prod = env.connection("p0", lat.get("p0"), buckets=False)
    cons_conn = env.connection("c0", lat.get("c0"), buckets=False) if case["broker"] != "mem" else prod
    await prod.connect()
    if cons_conn is not prod:
        await cons_conn.connect()
    await prod.message_broker.queue_declare("qd")
    await asyncio.sleep(case["phase_us"] / 1e6)
    t_base = loop.time()
    record: dict = {}
    delivered: dict = {}
    lat_sum = sum(lat.get("c0", [])) + sum(lat.get("p0", []))

    from repid.data._key import RoutingKey
    from repid.data._parameters import DelayProperties, Parameters

    foreign = case.get("foreign") or []
    for i, us in enumerate(foreign):
        await prod.message_broker.enqueue(
            RoutingKey(topic="tx", queue="qd", priority=5, id_=f"f{i}"), "",
            Parameters(delay=DelayProperties(next_execution_time=vclock.VDateTime.now() + timedelta(microseconds=us))))

    async def producer(m):
        await asyncio.sleep(max(0.0, t_base + m["at"] - loop.time()))
        await _enqueue(env, prod, m, loop, record)
        record[m["id"]]["enq_done"] = loop.time()

    async def consumer():
        await asyncio.sleep(max(0.0, t_base + case["consumer_at"] - loop.time()))
        c = cons_conn.message_broker.get_consumer("qd", ["t0"] if case.get("filtered") else None, case["max_unacked"])
        await c.start()
        record["_consumer_started"] = loop.time()
        try:
            while True:
                key, _payload, _params = await c.consume()
                if key.id_ in delivered:
                    out.v("delivered-twice", f"message {key.id_} delivered again at {loop.time():.6f}")
                if key.topic != "t0":
                    out.v("foreign-delivered", f"message {key.id_} of topic {key.topic} handed to a consumer of topic t0")
                r_ = record.get(key.id_) or {}
                if r_.get("requeue_delta_us") is not None and "requeued_at" not in r_:
                    from repid.data._parameters import RetriesProperties

                    t_due = vclock.VDateTime.now() + timedelta(microseconds=r_["requeue_delta_us"])
                    r_["requeued_at"], r_["due"], r_["enq"] = loop.time(), vclock.secs(t_due), loop.time()
                    await cons_conn.message_broker.requeue(key, "", Parameters(
                        delay=DelayProperties(next_execution_time=t_due), retries=RetriesProperties(max_amount=3, already_tried=1)))
                    continue
                delivered.setdefault(key.id_, loop.time())
                await cons_conn.message_broker.ack(key)
        finally:
            await asyncio.shield(c.finish())

    tasks = [asyncio.ensure_future(producer(m)) for m in case["msgs"]]
    ct = asyncio.ensure_future(consumer())
    await asyncio.sleep(max(0.0, t_base + HORIZON - loop.time()))
    pr = env.probe()
    ct.cancel()
    await asyncio.gather(ct, *tasks, return_exceptions=True)
    for t in tasks:
        if t.done() and not t.cancelled() and t.exception() is not None:
            out.v("enqueue-raises", f"enqueue raised {t.exception()!r}")
    started = record.get("_consumer_started", 0.0)
    L = L_LATE[case["broker"]] + lat_sum + 0.01 + 0.02 * len(foreign)
    if case["broker"] == "redis":
        # the consumer hands out one message per polling round, and a round sleeps POLLING_WAIT (0.1 s) on every empty priority
        # above the message's own: messages of the case that are deliverable at the same time queue behind each other
        L += 0.3 * (len(case["msgs"]) - 1)
    for i in range(len(foreign)):
        kinds = [p.kind for p in pr.get(f"f{i}", [])]
        if len(kinds) != 1 or kinds[0] not in ("waiting", "delayed"):
            out.v("forgotten", f"delayed message f{i} of a topic nobody consumed should still be queued, found {kinds}", broker=case["broker"],
                  head_of_line=False)
    end = t_base + HORIZON
    nontrivial = False
    for m in case["msgs"]:
        r = record.get(m["id"])
        if r is None or "enq_done" not in r:
            continue
        due, got = r["due"], delivered.get(m["id"])
        tag = f"message {m['id']} ({m['cls']}, form {m['form']}, prio {m['prio']}) enqueued {r['enq']:.6f}, due {due}"
        if due is not None and 0 < (due - r["enq"]) < HORIZON and abs(due - round(due)) > 1e-9:
            nontrivial = True
        if got is not None and due is not None and got < due - RES:
            out.v("early-delivery", f"{tag}: delivered at {got:.6f}, {due - got:.6f}s before it was due", broker=case["broker"],
                  form=m["form"])
        ready = max(due if due is not None else r["enq_done"], r["enq_done"], started)
        if m["cls"] == "far":
            if got is not None:
                continue  # already reported as early
            places = pr.get(m["id"], [])
            if [p.kind for p in places] != ["delayed"]:
                out.v("far-not-delayed", f"{tag}: after {HORIZON}s it should still be in the delayed category, found "
                      f"{[p.short() for p in places]}", broker=case["broker"])
            continue
        if ready + L < end:
            if got is None:
                places = pr.get(m["id"], [])
                out.v("forgotten", f"{tag}: not delivered by the end ({end:.3f}) although a consumer was waiting since "
                      f"{started:.3f}; places {[p.short() for p in places]}", broker=case["broker"],
                      head_of_line=_hol(case, m, record))
            elif got > ready + L:
                out.v("late-delivery", f"{tag}: delivered at {got:.6f}, {got - ready:.3f}s after it became deliverable "
                      f"(bound {L:.3f}s)", broker=case["broker"], head_of_line=_hol(case, m, record))
    out.nontrivial = nontrivial
    for m in case["msgs"]:
        out.cls("delta-" + m["cls"])
    if case.get("filtered"):
        out.cls("filtered", "foreign-ge-10" if len(foreign) >= 10 else "foreign-lt-10")
    out.cls("broker-" + case["broker"], "consumer-first" if case["consumer_at"] <= min(m["at"] for m in case["msgs"]) else "consumer-later")


def _hol(case, m, record) -> bool:
    """RabbitMQ head-of-line: an earlier-published delayed message of the same priority level with a later expiry."""
    if case["broker"] != "amqp":
        return False
    r = record[m["id"]]
    for o in case["msgs"]:
        ro = record.get(o["id"])
        if o is m or ro is None or ro["due"] is None or r["due"] is None:
            continue
        if o["prio"] == m["prio"] and ro["enq"] <= r["enq"] and ro["due"] > r["due"]:
            return True
    return False


def run_deliver(case: dict) -> Outcome:
    out = Outcome()
    try:
        vclock.run(lambda loop: _deliver(loop, case, out), max_steps=900_000, tz=case.get("tz"))
    except (vclock.StepLimit, vclock.Deadlock) as e:
        out.inconclusive = True
        out.info["watchdog"] = str(e)
    return out


# --------------------------------------------------------------------------- visibility through the DELAYED category


@st.composite
def visible_case(draw, broker):
    cls, us = draw(st.one_of(st.tuples(st.just("seconds"), st.integers(2_000_000, 30_000_000)),
                             st.tuples(st.just("far"), st.sampled_from([3600, 86400 * 400]).map(lambda s: s * 1_000_000 + 5))))
    return {"broker": broker, "seed": draw(st.integers(0, 2**16)), "delta_us": us, "cls": cls, "tz": draw(st.sampled_from([None, None, *vclock.zones(us / 86400e6 + 3)])),
            "form": draw(st.sampled_from(["net", "until", "job", "by", "jobby", "netby"])), "phase_us": draw(st.integers(0, 999_999)),
            "peek_at_us": draw(st.integers(0, 1_500_000)), "prio": draw(st.sampled_from([0, 5, 9])),
            "others": draw(st.integers(0, 2))}


async def _visible(loop, case, out: Outcome):
    from repid import MessageCategory
    from repid.data._key import RoutingKey
    from repid.data._parameters import Parameters

    reset_globals()
    env = Env(case["broker"], loop, case["seed"])
    conn = env.connection("p0", None, buckets=False)
    await conn.connect()
    b = conn.message_broker
    await b.queue_declare("qd")
    await asyncio.sleep(case["phase_us"] / 1e6)
    record: dict = {}
    m = {"id": "d0", "cls": case["cls"], "delta_us": case["delta_us"], "form": case["form"], "prio": case["prio"]}
    await _enqueue(env, conn, m, loop, record)
    for i in range(case["others"]):
        await b.enqueue(RoutingKey(topic="t0", queue="qd", priority=case["prio"], id_=f"i{i}"), "", Parameters())
    due = record["d0"]["due"]
    await asyncio.sleep(case["peek_at_us"] / 1e6)
    # NORMAL consumer must not see it
    nc = b.get_consumer("qd", None, None, MessageCategory.NORMAL)
    await nc.start()
    seen = []
    try:
        for _ in range(case["others"] + 1):
            k, _, _ = await asyncio.wait_for(nc.consume(), timeout=0.6)
            if k.id_ != "d0" or loop.time() < due - RES:
                seen.append(k.id_)
            await b.ack(k)
            if k.id_ == "d0" and "d0" not in seen:
                out.inconclusive = True  # it simply became due while we were looking
                await nc.finish()
                return
    except asyncio.TimeoutError:
        pass
    await nc.finish()
    await asyncio.sleep(0.15)
    if "d0" in seen:
        out.v("early-delivery", f"delayed message (due {due:.6f}) handed to a NORMAL consumer at {loop.time():.6f}", broker=case["broker"],
              form=case["form"])
        return
    if loop.time() >= due - 0.5:
        out.inconclusive = True
        return
    # DELAYED consumer must see it
    dc = b.get_consumer("qd", None, None, MessageCategory.DELAYED)
    await dc.start()
    try:
        k, _p, params = await asyncio.wait_for(dc.consume(), timeout=0.8)
    except asyncio.TimeoutError:
        out.v("delayed-not-visible", f"message due at {due:.6f} is not retrievable through the DELAYED category at {loop.time():.6f}; "
              f"places {[p.short() for p in env.probe().get('d0', [])]}", broker=case["broker"])
        await dc.finish()
        return
    if k.id_ != "d0":
        out.v("delayed-wrong-message", f"DELAYED consumer returned {k.id_}")
    await b.reject(k)
    await dc.finish()
    await asyncio.sleep(0.15)
    places = env.probe().get("d0", [])
    if [p.kind for p in places] != ["delayed"] and loop.time() < due - 0.2:
        out.v("reject-left-delayed", f"after rejecting it from the DELAYED category (now {loop.time():.6f}, due {due:.6f}) the message "
              f"is in {[p.short() for p in places]}", broker=case["broker"])
        return
    # ...and still not deliverable to a NORMAL consumer before its time
    nc2 = b.get_consumer("qd", None, None, MessageCategory.NORMAL)
    await nc2.start()
    try:
        k2, _, _ = await asyncio.wait_for(nc2.consume(), timeout=0.4)
        if loop.time() < due - RES:
            out.v("early-delivery", f"after a reject from the DELAYED category the message (due {due:.6f}) was handed to a NORMAL "
                  f"consumer at {loop.time():.6f}", broker=case["broker"], form=case["form"])
    except asyncio.TimeoutError:
        pass
    await nc2.finish()
    out.nontrivial = True


def run_visible(case: dict) -> Outcome:
    out = Outcome()
    try:
        vclock.run(lambda loop: _visible(loop, case, out), max_steps=300_000, tz=case.get("tz"))
    except (vclock.StepLimit, vclock.Deadlock) as e:
        out.inconclusive = True
        out.info["watchdog"] = str(e)
    out.cls("broker-" + case["broker"], "delta-" + case["cls"], "form-" + case["form"])
    return out


def _d(b):
    return lambda: deliver_case(b)


def _v(b):
    return lambda: visible_case(b)


CHECK = Check(
    pid="C05",
    level="exploration",
    rule=(
        "Broker-level timing scenarios: 1-5 delayed messages with due time T=now+d, d from {past -10..0 s, sub-second, 1-30 s, far "
        "(hours..years)} at microsecond phase, expressed as next_execution_time / delay_until / Job(deferred_until), mixed with "
        "immediate messages and priorities, enqueued at generated instants (also while the consumer is already waiting); `now` itself "
        "at a generated sub-second phase; one consumer continuously consuming (and acking) for a 40 s virtual horizon. Oracle: no "
        "hand-over before T-1ms; delivery within T+L_broker (mem 1.15 s, redis 1.65 s, amqp 0.15 s, + generated latencies) once due, "
        "enqueued and a consumer waits; far-future messages stay undelivered and in the delayed category. Visibility sub-check: before "
        "T a NORMAL consumer does not get it, a DELAYED-category consumer does, rejecting it keeps it delayed. Non-trivial = a message "
        "with 0<d<horizon whose T is not on a whole second."
    ),
    assumptions=[
        "virtual clock; Redis and RabbitMQ are in-process server models (RabbitMQ per-message TTL expires only at the head of its queue level - documented behaviour)",
        "latency bounds are the polling constants read from the code plus generated round-trip latencies",
    ],
    subchecks=[
        SubCheck("deliver-mem", _d("mem"), run_deliver, quick=12, thorough=400),
        SubCheck("deliver-redis", _d("redis"), run_deliver, quick=30, thorough=1000),
        SubCheck("deliver-amqp", _d("amqp"), run_deliver, quick=40, thorough=1200),
        SubCheck("visible-mem", _v("mem"), run_visible, quick=30, thorough=600),
        SubCheck("visible-redis", _v("redis"), run_visible, quick=30, thorough=600),
        SubCheck("visible-amqp", _v("amqp"), run_visible, quick=30, thorough=600),
    ],
)
