"""C02 (burst) - many sync actors at once.

NOTE: no `from __future__ import annotations` here (actors carry real annotations).

"whatever the actor does": a sync actor runs in a thread.  Each delivery is judged on its own - a delivery whose actor simply
returns is acknowledged - however many other sync actors are running at that moment.  The actors meet at a barrier, so the
scenario only completes if all of them really run concurrently (virtual time stands still while threads run; a pool smaller
than the burst shows as actors that never got a thread)."""
import asyncio
import threading
from datetime import timedelta

from hypothesis import strategies as st

from harness import vclock
from harness.brokers import Env, reset_globals
from harness.core import Outcome


@st.composite
def burst_case(draw):
    return {"n": draw(st.sampled_from([40, 33, 70, 8])), "async_jobs": draw(st.integers(0, 5)), "seed": draw(st.integers(0, 999)),
            "timeout": draw(st.sampled_from([2, 600])), "fail_some": draw(st.booleans())}


async def _burst(loop, case, out: Outcome):
    from repid import BasicConverter, Job, Queue, Router, Worker

    reset_globals()
    env = Env("mem", loop, case["seed"])
    conn = env.connection("c0", None, buckets=False)
    await conn.connect()
    n = case["n"]
    barrier = threading.Barrier(n)
    ran: list = []
    broken: list = []

    def work(x: int) -> int:
        ran.append(x)
        try:
            barrier.wait(timeout=4.0)
        except threading.BrokenBarrierError:
            broken.append(x)
        if case["fail_some"] and x % 7 == 3:
            raise ValueError("scripted failure")
        return x

    async def quick(x: int) -> int:
        return x

    router = Router()
    router.actor(work, name="work", queue="qs", converter=BasicConverter)
    router.actor(quick, name="quick", queue="qs", converter=BasicConverter)
    await Queue("qs", _connection=conn).declare()
    total = n + case["async_jobs"]
    for i in range(n):
        await Job("work", queue="qs", id_=f"s{i}", args={"x": i}, timeout=timedelta(seconds=case["timeout"]), _connection=conn).enqueue()
    for i in range(case["async_jobs"]):
        await Job("quick", queue="qs", id_=f"a{i}", args={"x": i}, _connection=conn).enqueue()
    w = Worker(routers=[router], tasks_limit=1000, messages_limit=total, handle_signals=[], _connection=conn)
    try:
        await asyncio.wait_for(w.run(), timeout=120.0)
    except asyncio.TimeoutError:
        out.v("worker-stuck", f"worker did not finish {total} messages")
        return
    await asyncio.sleep(0.2)
    pr = env.probe()
    expect_dead = {f"s{i}" for i in range(n) if case["fail_some"] and i % 7 == 3}
    wrong = []
    for i in range(n):
        kinds = [p.kind for p in pr.get(f"s{i}", [])]
        want = ["dead"] if f"s{i}" in expect_dead else []
        if kinds != want:
            wrong.append((f"s{i}", kinds))
    if wrong:
        never = [i for i in range(n) if i not in ran]
        out.v("wrong-disposition", f"{len(wrong)} of {n} concurrent sync-actor deliveries were not disposed as their actor's outcome demands "
              f"(e.g. {wrong[:3]}; {len(never)} actors never ran, {len(broken)} waited in vain for the others to get a thread)",
              burst=n)
    elif sorted(ran) != list(range(n)):
        out.v("execution-count", f"sync actors ran {len(ran)} times for {n} messages")
    out.nontrivial = n > 32
    out.cls(f"burst-{n}", "with-failures" if case["fail_some"] else "all-succeed")


def run_burst(case: dict) -> Outcome:
    out = Outcome()
    try:
        vclock.run(lambda loop: _burst(loop, case, out), max_steps=2_000_000, thread_time=True)
    except (vclock.StepLimit, vclock.Deadlock) as e:
        out.inconclusive = True
        out.info["watchdog"] = str(e)
    return out
