"""C19 — Schedule arithmetic is well-behaved for all inputs (pure functions, pinned clock)."""
from __future__ import annotations

import datetime as dt
from datetime import timedelta

from hypothesis import strategies as st

from harness import vclock
from harness.core import Check, Outcome, SubCheck

US = 1_000_000
YEAR_US = 366 * 86400 * US

# ------------------------------------------------------------------ (a) default retry policy


def _policy_case():
    def build(mn, span, mult, exp, n, dn):
        return {"min": mn, "max": min(mn + span, 10**9), "mult": mult, "exp": exp, "n": n, "dn": dn}

    big = st.one_of(st.integers(1, 40), st.integers(1, 10**4), st.integers(1, 10**9))
    return st.builds(
        build,
        mn=big,
        span=st.one_of(st.just(0), st.integers(0, 100), st.integers(0, 10**9)),
        mult=big,
        exp=st.one_of(st.integers(1, 40), st.integers(1, 10**4)),
        n=st.one_of(st.integers(1, 60), st.integers(1, 10**4 + 5), st.integers(1, 10**18)),
        dn=st.one_of(st.just(1), st.integers(1, 50), st.integers(1, 10**18)),
    )


def run_policy(case: dict) -> Outcome:
    from repid import default_retry_policy_factory

    out = Outcome()
    mn, mx, mult, exp, n, dn = (case[k] for k in ("min", "max", "mult", "exp", "n", "dn"))
    try:
        f = default_retry_policy_factory(min_backoff=mn, max_backoff=mx, multiplier=mult, max_exponent=exp)
        a, b, c = f(n), f(n + 1), f(n + dn)
        d = f(retry_number=n)
    except Exception as e:  # noqa: BLE001
        out.v("policy-raises", f"default policy raised {type(e).__name__}: {e} for {case}")
        return out
    for name, val in (("f(n)", a), ("f(n+1)", b), ("f(n+dn)", c)):
        if not isinstance(val, timedelta):
            out.v("policy-type", f"{name} is {type(val).__name__}, not timedelta")
            return out
        s = val.total_seconds()
        if not (mn <= s <= mx):
            out.v("policy-bounds", f"{name}={s}s outside [{mn}, {mx}] for {case}")
    if a > b or a > c or b > c and dn >= 1:
        out.v("policy-monotone", f"not monotone: f({n})={a}, f({n + 1})={b}, f({n + dn})={c} for {case}")
    if d != a:
        out.v("policy-kw", f"keyword call differs: {d} vs {a}")
    clipped = a.total_seconds() in (mn, mx)
    out.nontrivial = n > exp or clipped
    out.cls("n>max_exponent" if n > exp else "n<=max_exponent")
    if a.total_seconds() == mx and mx > mn:
        out.cls("clipped-at-max")
    elif a.total_seconds() == mn:
        out.cls("floored-at-min")
    else:
        out.cls("interior")
    return out


# ------------------------------------------------------------------ (b) compute_next_execution_time


def _next_case():
    period = st.one_of(
        st.integers(1 * US, 120 * US),
        st.integers(1, 3600).map(lambda s: s * US),
        st.integers(1 * US, 10 * YEAR_US),
    )
    base = st.integers(-59 * YEAR_US, 170 * YEAR_US)  # µs relative to 2030-01-01 -> years ~1971..2200

    @st.composite
    def build(draw):
        p = draw(period)
        b = draw(base)
        kind = draw(st.sampled_from(["before", "at", "multiple", "multiple+1us", "multiple-1us", "any", "any-far"]))
        if kind == "before":
            off = -draw(st.integers(1, 3 * p))
        elif kind == "at":
            off = 0
        elif kind.startswith("multiple"):
            k = draw(st.integers(0, 1000))
            off = k * p + {"multiple": 0, "multiple+1us": 1, "multiple-1us": -1}[kind]
        elif kind == "any":
            off = draw(st.integers(0, 5 * p))
        else:
            off = draw(st.integers(0, 20 * YEAR_US))
        now = b + off
        du_kind = draw(st.sampled_from(["none", "none", "ahead", "past", "now", "now+1us"]))
        du = None
        if du_kind == "ahead":
            du = now + draw(st.integers(1, 5 * p))
        elif du_kind == "past":
            du = now - draw(st.integers(1, 5 * p))
        elif du_kind == "now":
            du = now
        elif du_kind == "now+1us":
            du = now + 1
        # the message may carry the (off-grid) time of its latest delivery - e.g. a retry back-off that has since passed; the period
        # grid stays anchored at the time base
        net = draw(st.one_of(st.none(), st.none(), st.integers(1, 3 * p).map(lambda d: now - d)))
        return {"period_us": p, "base_us": b, "now_us": now, "delay_until_us": du, "kind": kind, "du_kind": du_kind, "net_us": net}

    return build()


_LO = -59 * YEAR_US - 40 * YEAR_US
_HI = 7000 * YEAR_US


def run_next(case: dict) -> Outcome:
    from repid.data._parameters import DelayProperties, Parameters

    out = Outcome()
    p_us, b_us, now_us, du_us = case["period_us"], case["base_us"], case["now_us"], case["delay_until_us"]
    if not (_LO < now_us < _HI and _LO < b_us < _HI):
        out.inconclusive = True
        return out
    p = timedelta(microseconds=p_us)
    base = vclock.EPOCH + timedelta(microseconds=b_us)
    du = None if du_us is None else vclock.to_v(vclock.EPOCH + timedelta(microseconds=du_us))
    with vclock.Pinned(now_us):
        now = vclock.VDateTime.now()
        net = None if case.get("net_us") is None else vclock.to_v(vclock.EPOCH + timedelta(microseconds=case["net_us"]))
        params = Parameters(delay=DelayProperties(delay_until=du, defer_by=p, next_execution_time=net), timestamp=vclock.to_v(base))
        try:
            nxt = params.compute_next_execution_time
        except Exception as e:  # noqa: BLE001
            out.v("next-raises", f"compute_next_execution_time raised {type(e).__name__}: {e} for {case}")
            return out
    out.cls("now:" + case["kind"], "delay_until:" + case["du_kind"], "after-a-retry" if case.get("net_us") is not None else "fresh")
    out.nontrivial = case["kind"] in ("before", "at", "multiple", "multiple+1us", "multiple-1us")
    if nxt is None:
        out.v("next-none", f"periodic job has no next execution time for {case}")
        return out
    if du is not None and du > now:
        if nxt != du:
            out.v("next-deferred-until", f"deferred_until {du} is ahead of now {now} but next={nxt}")
        return out
    if not (now < nxt <= now + p):
        out.v("next-window", f"next={nxt} not in (now={now}, now+p={now + p}] for {case}")
    anchors = [base] + ([du] if du is not None else [])
    if not any((nxt - a) % p == timedelta(0) for a in anchors):
        out.v("next-grid", f"next={nxt} is not a whole number of periods ({p}) after its time base "
                           f"(timestamp {base} / deferred_until {du}) for {case}")
    return out


# ------------------------------------------------------------------ (c) is_overdue


def _overdue_case():
    @st.composite
    def build(draw):
        ttl = draw(st.one_of(st.none(), st.integers(1 * US, 120 * US), st.integers(1 * US, 100 * YEAR_US)))
        ts = draw(st.integers(-59 * YEAR_US, 170 * YEAR_US))
        tz = draw(st.sampled_from([None, 0, 3600, -5 * 3600, 5 * 3600 + 1800, 14 * 3600, -12 * 3600]))
        kind = draw(st.sampled_from(["at", "+1us", "-1us", "after", "before"]))
        exp = ts + (ttl or 60 * US)
        d = {"at": 0, "+1us": 1, "-1us": -1}.get(kind)
        if d is None:
            d = draw(st.integers(2, 400 * YEAR_US)) * (1 if kind == "after" else -1)
        now = exp + d
        target = draw(st.sampled_from(["Parameters", "ArgsBucket", "ResultBucket", "Job"]))
        # the other scheduling fields of the message / job (a later delay_until, a period, a pending retry time) do not enter the
        # decision: expiry counts from the timestamp
        sched = draw(st.one_of(st.none(), st.none(), st.fixed_dictionaries({
            "until_off_us": st.one_of(st.none(), st.integers(-3600 * US, 400 * 86400 * US)),
            "by_us": st.one_of(st.none(), st.integers(1 * US, 30 * 86400 * US)),
            "net_off_us": st.one_of(st.none(), st.integers(-3600 * US, 30 * 86400 * US)),
            "tried": st.integers(0, 3)})))
        return {"ttl_us": ttl, "ts_us": ts, "tz_s": tz, "now_us": now, "kind": kind, "target": target, "sched": sched}

    return build()


_conn = None


def _connection():
    global _conn
    if _conn is None:
        from repid import Connection, InMemoryMessageBroker

        _conn = Connection(InMemoryMessageBroker())
    return _conn


def run_overdue(case: dict) -> Outcome:
    from repid import Job
    from repid.data._buckets import ArgsBucket, ResultBucket
    from repid.data._parameters import Parameters

    out = Outcome()
    ttl_us, ts_us, tz_s, now_us, target = (case[k] for k in ("ttl_us", "ts_us", "tz_s", "now_us", "target"))
    if not (_LO < now_us < _HI):
        out.inconclusive = True
        return out
    ttl = None if ttl_us is None else timedelta(microseconds=ttl_us)
    # ts_us is an absolute instant (µs after EPOCH, naive = UTC); render it in the chosen zone
    ts_naive = vclock.EPOCH + timedelta(microseconds=ts_us)
    if tz_s is None:
        ts = vclock.to_v(ts_naive)
    else:
        zone = dt.timezone(timedelta(seconds=tz_s))
        ts = vclock.to_v(ts_naive.replace(tzinfo=dt.timezone.utc).astimezone(zone))
    expected = False if ttl is None else now_us > ts_us + ttl_us
    with vclock.Pinned(now_us):
        try:
            sched = case.get("sched")
            off = lambda us: None if us is None else ts + timedelta(microseconds=us)  # noqa: E731
            if target == "Parameters" and sched:
                from repid.data._parameters import DelayProperties, RetriesProperties

                got = Parameters(timestamp=ts, ttl=ttl, retries=RetriesProperties(max_amount=3, already_tried=sched["tried"]),
                                 delay=DelayProperties(delay_until=off(sched["until_off_us"]),
                                                       defer_by=None if sched["by_us"] is None else timedelta(microseconds=sched["by_us"]),
                                                       next_execution_time=off(sched["net_off_us"]))).is_overdue
            elif target == "Parameters":
                got = Parameters(timestamp=ts, ttl=ttl).is_overdue
            elif target == "ArgsBucket":
                got = ArgsBucket(data="x", timestamp=ts, ttl=ttl).is_overdue
            elif target == "ResultBucket":
                got = ResultBucket(data="x", started_when=1, finished_when=2, timestamp=ts, ttl=ttl).is_overdue
            else:
                jkw = {}
                if sched:
                    jkw = {"deferred_until": off(sched["until_off_us"]),
                           "deferred_by": None if sched["by_us"] is None else timedelta(microseconds=sched["by_us"])}
                j = Job("some_job", ttl=ttl, _connection=_connection(), **jkw)
                j.timestamp = ts
                got = j.is_overdue
        except Exception as e:  # noqa: BLE001
            out.v("overdue-raises", f"{target}.is_overdue raised {type(e).__name__}: {e} for {case}")
            return out
    out.cls(target, "tz-aware" if tz_s is not None else "naive", "ttl:none" if ttl is None else "kind:" + case["kind"])
    out.nontrivial = ttl is not None and case["kind"] in ("at", "+1us", "-1us")
    if got is not expected:
        out.v("overdue-value", f"{target}.is_overdue={got}, expected {expected} (now-expiry={case['kind']}) for {case}",
              target=target)
    return out


# ------------------------------------------------------------------ (d) where bucket expiry is enforced: the Redis bucket broker
# Nothing in repid reads ArgsBucket/ResultBucket.is_overdue; "now > timestamp + ttl" is made true for stored buckets by the
# expiry the Redis bucket broker puts on the key.  (The in-memory bucket broker keeps buckets for ever - not judged.)


def _store_case():
    day = 86400 * US
    return st.fixed_dictionaries({
        "result": st.booleans(),
        "ttl_us": st.one_of(st.integers(2 * US, 120 * US), st.sampled_from([day, 2 * day + 5 * US, 30 * day])),
        # the bucket's timestamp is usually "now", but a bucket may be stored (again) long after it was created
        "left_us": st.one_of(st.just(None), st.integers(-30 * US, 60 * US)),
        "eps_us": st.one_of(st.sampled_from([-3 * US, -1_500_000, 1_500_000, 3 * US]), st.integers(-20 * US, 20 * US)),
        "phase_us": st.integers(0, 999_999),
        "restore": st.booleans(),
        # host time zone (the bucket's naive timestamp is host-local wall-clock time; the key's expiry is an absolute instant)
        "tz": st.sampled_from([None, None, *vclock.zones(40)]),
    })


async def _store(loop, case, out: Outcome):
    import asyncio

    from harness.brokers import Env, reset_globals
    from repid.data._buckets import ArgsBucket, ResultBucket

    reset_globals()
    env = Env("redis", loop, 0)
    conn = env.connection("c0", None, buckets=True)
    await conn.connect()
    bb = conn.results_bucket_broker if case["result"] else conn.args_bucket_broker
    await asyncio.sleep(case["phase_us"] / 1e6)
    now = vclock.VDateTime.now()
    ttl = timedelta(microseconds=case["ttl_us"])
    # time left until the expiry at store time (None: a fresh bucket, expiry = now + ttl)
    ts = now if case["left_us"] is None else now + timedelta(microseconds=case["left_us"]) - ttl
    if case["result"]:
        b = ResultBucket(data="[1]", started_when=1, finished_when=2, success=True, exception=None, timestamp=ts, ttl=ttl)
    else:
        b = ArgsBucket(data='{"x": 1}', timestamp=ts, ttl=ttl)
    await bb.store_bucket("bk", b)
    if case["restore"]:
        got = await bb.get_bucket("bk")
        if got is not None:
            await bb.store_bucket("bk", got)  # fetched and stored again: still the same deadline
    expiry = vclock.secs(ts) + ttl.total_seconds()
    t_probe = expiry + case["eps_us"] / 1e6
    if case["left_us"] is None and case["ttl_us"] > 200 * US:
        t_probe = loop.time() + abs(case["eps_us"]) / 1e6  # a far deadline: only "still there" can be observed
    if t_probe > loop.time():
        await asyncio.sleep(t_probe - loop.time())
    t_probe = loop.time()
    got = await bb.get_bucket("bk")
    tag = f"{'result' if case['result'] else 'args'} bucket, timestamp {vclock.secs(ts):.6f}, ttl {ttl}, expiry {expiry:.6f}, read at {t_probe:.6f}"
    # the key expiry has whole-second resolution
    if t_probe > expiry + 1.0 and got is not None:
        out.v("expired-bucket-served", f"{tag}: still returned {t_probe - expiry:.3f}s after timestamp + ttl")
    if t_probe < expiry - 1.0:
        if got is None:
            out.v("live-bucket-gone", f"{tag}: not returned although {expiry - t_probe:.3f}s of its time-to-live were left")
        elif got != b:
            out.v("bucket-changed", f"{tag}: stored {b}, read {got}")
    out.nontrivial = abs(t_probe - expiry) <= 5.0 or case["left_us"] is not None
    out.cls("result" if case["result"] else "args", "fresh" if case["left_us"] is None else "old-timestamp",
            "read-after-expiry" if t_probe > expiry + 1.0 else "read-before-expiry" if t_probe < expiry - 1.0 else "read-at-expiry")


def run_store(case: dict) -> Outcome:
    out = Outcome()
    try:
        vclock.run(lambda loop: _store(loop, case, out), max_steps=100_000, tz=case.get("tz"))
    except (vclock.StepLimit, vclock.Deadlock) as e:
        out.inconclusive = True
        out.info["watchdog"] = str(e)
    return out


CHECK = Check(
    pid="C19",
    level="exploration",
    rule=(
        "Hypothesis-generated inputs to the pure schedule functions under a clock pinned at an exact microsecond. "
        "policy: (min,max,mult,max_exponent,n,dn) with oracle f(n) in [min,max], f(n)<=f(n+1)<=f(n+dn), no exception; "
        "non-trivial = n>max_exponent or result clipped at a bound. next: (period, timestamp, now, deferred_until) with now "
        "before/at/exactly on multiples(+-1us) of the period; oracle now<next<=now+p and (next-base) mod p==0 for "
        "base in {timestamp, deferred_until}, or next==deferred_until while ahead; non-trivial = now before the base, at it "
        "or within 1us of an exact multiple. overdue: (ttl, timestamp, tz, now) for Parameters/ArgsBucket/ResultBucket/Job; "
        "oracle is_overdue == (now > timestamp+ttl), False without ttl; non-trivial = |now-expiry|<=1us. "
        "store-redis: buckets (fresh, or with a timestamp long before the store, fetched and stored again) written through the Redis "
        "bucket broker on the server model and read around timestamp+ttl; oracle: gone once now > timestamp+ttl+1 s, present and "
        "unchanged while now < timestamp+ttl-1 s (the key expiry has whole-second resolution). distinct = distinct JSON case."
    ),
    assumptions=[
        "clock: datetime.now()/time.time() inside repid.* are rebound to a pinned simulated clock (harness/vclock.py); naive datetimes are UTC (TZ=UTC)",
        "max_exponent generated up to 10^4 only (2**exponent is computed eagerly by the code); n up to 10^18",
        "cron schedules not exercised: croniter is not installed in this sandbox",
    ],
    subchecks=[
        SubCheck("policy", _policy_case, run_policy, quick=1500, thorough=40000),
        SubCheck("next", _next_case, run_next, quick=1500, thorough=40000),
        SubCheck("overdue", _overdue_case, run_overdue, quick=1200, thorough=30000),
        SubCheck("store-redis", _store_case, run_store, quick=150, thorough=4000),
    ],
)
