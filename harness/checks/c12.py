"""C12 — Expired messages are never executed; live ones are never dropped."""
from __future__ import annotations

import asyncio
from datetime import timedelta

from hypothesis import strategies as st

from harness import scenario, vclock
from harness.brokers import Env, reset_globals
from harness.core import Check, Outcome, SubCheck

EPS = st.one_of(
    st.sampled_from([0, 1, -1, 1000, -1000, 2000, -2000, 500_000, -500_000]),
    st.integers(-10_000_000, 10_000_000),
    st.integers(-3000, 3000),
)


@st.composite
def ttl_case(draw, broker):
    # (Job refuses a ttl below one second, Parameters - what a foreign producer or the broker API sends - does not: 0 and
    #  sub-second values are time-to-live values like any other)
    ttl_us = draw(st.one_of(st.integers(1, 60).map(lambda s: s * 1_000_000), st.integers(1_000_000, 60_000_000),
                            st.sampled_from([0, 1, 500_000])))
    kind = draw(st.sampled_from(["immediate", "immediate", "delayed-before", "delayed-after", "retried", "rescheduled", "no-ttl"]))
    case = {"broker": broker, "seed": draw(st.integers(0, 2**16)), "ttl_us": ttl_us, "kind": kind, "tz": draw(st.sampled_from([None, None, *vclock.zones(3)])),
            "eps_us": draw(EPS), "phase_us": draw(st.integers(0, 999_999)), "age_us": draw(st.integers(0, ttl_us // 2)),
            "patience": draw(st.sampled_from([0.05, 0.3, 0.7])), "prio": draw(st.sampled_from([0, 5, 9])),
            "payload": draw(st.text("ab{}\"", max_size=5)), "due_frac": draw(st.integers(1, 99)) / 100,
            "backoff_us": draw(st.integers(0, 3_000_000)), "period_us": draw(st.integers(1_000_000, 5_000_000)),
            "copies": draw(st.sampled_from([1, 1, 2, 3, 4]))}
    if draw(st.integers(0, 4)) == 0:
        # time-to-live of a day and more, scheduled long ago: the expiry is still only seconds away
        case["ttl_us"] = draw(st.sampled_from([86400, 2 * 86400 + 3, 30 * 86400, 400 * 86400 + 7])) * 1_000_000 + draw(st.integers(0, 999_999))
        case["age_us"] = case["ttl_us"] - draw(st.integers(500_000, 20_000_000))
        case["long"] = True
    if broker != "mem":
        case["lat"] = draw(st.lists(st.sampled_from([0.0, 0.001, 0.003]), max_size=12))
    return case


async def _ttl(loop, case, out: Outcome):
    from repid import MessageCategory
    from repid.data._key import RoutingKey
    from repid.data._parameters import DelayProperties, Parameters, RetriesProperties

    reset_globals()
    env = Env(case["broker"], loop, case["seed"])
    conn = env.connection("c0", case.get("lat"), buckets=False)
    await conn.connect()
    b = conn.message_broker
    await b.queue_declare("qt")
    await asyncio.sleep(case["phase_us"] / 1e6)
    now = vclock.VDateTime.now()
    ttl = timedelta(microseconds=case["ttl_us"])
    kind = case["kind"]
    ts = now - timedelta(microseconds=case["age_us"])
    due = None
    if kind == "no-ttl":
        params = Parameters(timestamp=ts)
    elif kind == "immediate":
        params = Parameters(timestamp=ts, ttl=ttl)
    elif kind == "delayed-before":
        d = ts + ttl * case["due_frac"]
        params = Parameters(timestamp=ts, ttl=ttl, delay=DelayProperties(next_execution_time=d))
        due = vclock.secs(d)
    elif kind == "delayed-after":
        d = ts + ttl + timedelta(microseconds=case["backoff_us"] + 1)
        params = Parameters(timestamp=ts, ttl=ttl, delay=DelayProperties(next_execution_time=d))
        due = vclock.secs(d)
    elif kind == "retried":
        base = Parameters(timestamp=ts, ttl=ttl, retries=RetriesProperties(max_amount=3, already_tried=1))
        params = base._prepare_retry(timedelta(microseconds=case["backoff_us"]))
        due = vclock.secs(params.delay.next_execution_time)
    else:  # rescheduled: fresh time-to-live clock
        base = Parameters(timestamp=ts - ttl * 3, ttl=ttl, delay=DelayProperties(defer_by=timedelta(microseconds=case["period_us"])))
        params = base._prepare_reschedule()
        due = vclock.secs(params.delay.next_execution_time)
    # expiry as carried by the message - except that a retry must not restart the clock ("counted from its latest scheduling")
    expiry = None if params.ttl is None else vclock.secs(params.timestamp) + params.ttl.total_seconds()
    if kind == "retried":
        expiry = vclock.secs(ts) + ttl.total_seconds()
    if kind == "rescheduled":
        expiry = vclock.secs(now) + ttl.total_seconds()  # a reschedule is a new scheduling: the clock restarts there and then
    ids = [f"x{i + 1}" for i in range(case.get("copies", 1))]  # several adjacent messages with the same fate
    for id_ in ids:
        await b.enqueue(RoutingKey(topic="t0", queue="qt", priority=case["prio"], id_=id_), case["payload"], params)
    slack = sum(case.get("lat", [])) + 1e-6
    if expiry is None:
        t_c = loop.time() + abs(case["eps_us"]) / 1e6 + (0 if due is None else max(0.0, due - loop.time()))
    else:
        t_c = expiry + case["eps_us"] / 1e6
    if t_c > loop.time():
        await asyncio.sleep(t_c - loop.time())
    t_c = loop.time()
    # the message must be deliverable (due) for the "live" obligation; for the redis/in-memory brokers a due message
    # may need up to ~1.1 s to migrate from the delayed category
    lag = {"mem": 1.15, "redis": 1.7, "amqp": 0.2}[case["broker"]]
    # an immediately deliverable message still needs the consumer's own polling round (redis: up to 3 x POLLING_WAIT)
    base_wait = {"mem": 0.0, "redis": 0.45, "amqp": 0.12}[case["broker"]]
    patience = case["patience"] + base_wait + (lag if due is not None else 0.0)
    nc = b.get_consumer("qt", None, None, MessageCategory.NORMAL)
    await nc.start()
    gots: list = []
    for _ in ids:  # one patience window per copy (a broker may need one polling round per expired message)
        try:
            gots.append(await asyncio.wait_for(nc.consume(), timeout=patience))
        except asyncio.TimeoutError:
            pass
    t_end = loop.time()  # the whole consume window [t_c, t_end] must lie on one side of the expiry to be constrained
    pr_end = env.probe()  # before any more time can pass
    for g in gots:
        await b.reject(g[0])
    await nc.finish()
    await asyncio.sleep(0.15)
    pr_after = env.probe()
    delivered = {g[0].id_ for g in gots}
    for id_ in ids:
        _judge(out, case, env, loop, id_, id_ in delivered, pr_end, pr_after, params, expiry, due, t_c, t_end, slack, lag, kind)
    if expiry is not None and t_c > expiry + slack and (due is None or due <= t_c - lag):
        # every expired copy must be retrievable from the dead category with identical content
        dc = b.get_consumer("qt", None, None, MessageCategory.DEAD)
        await dc.start()
        seen = set()
        taken = []
        try:
            for _ in ids:
                k, payload, prm = await asyncio.wait_for(dc.consume(), timeout=0.8)
                seen.add(k.id_)
                taken.append(k)
                if payload != case["payload"] or prm != params:
                    out.v("dead-content", f"dead-lettered message {k.id_} differs: {payload!r} {prm} vs {params}")
        except asyncio.TimeoutError:
            pass
        for k in taken:
            await b.reject(k)
        await dc.finish()
        missing = [i for i in ids if i not in seen and i not in delivered]
        if missing and not any(v.sub in ("expired-not-dead", "expired-delivered") for v in out.violations):
            out.v("dead-not-retrievable", f"{kind} messages {missing} (of {len(ids)} adjacent expired ones) are not retrievable through the DEAD "
                  "category", broker=case["broker"])
    band = ("after-expiry" if expiry is not None and t_c > expiry + slack else
            "before-expiry" if (expiry is None or t_end < expiry - slack) else "unconstrained")
    out.cls("broker-" + case["broker"], "kind-" + kind, "band-" + band, f"copies-{len(ids)}", "ttl-days" if case.get("long") else "ttl-seconds")
    out.nontrivial = band != "unconstrained" and (abs(case["eps_us"]) <= 1_000_000 or kind not in ("immediate", "no-ttl"))


# ------------------------------------------------------------------ a consumer that has been idle for a while


@st.composite
def idle_case(draw, broker):
    """The consumer has been polling an empty queue for some time when a message arrives that expired a moment ago (or is still
    clearly alive).  Whatever the consumer cached while idle, the expired one is not handed out."""
    return {"broker": broker, "seed": draw(st.integers(0, 2**16)), "idle_us": draw(st.integers(50_000, 3_500_000)),
            "ttl_us": draw(st.sampled_from([1_000_000, 2_500_000, 60_000_000, 0])),
            # how long ago it expired at the moment it is enqueued (negative: so much is still left)
            "expired_by_us": draw(st.one_of(st.integers(1_000, 1_500_000), st.sampled_from([2_000, 300_000, 900_000, -8_000_000]))),
            "prio": draw(st.sampled_from([0, 5, 9])), "phase_us": draw(st.integers(0, 999_999))}


async def _idle(loop, case, out: Outcome):
    from repid import MessageCategory
    from repid.data._key import RoutingKey
    from repid.data._parameters import Parameters

    reset_globals()
    env = Env(case["broker"], loop, case["seed"])
    conn = env.connection("c0", None, buckets=False)
    await conn.connect()
    b = conn.message_broker
    await b.queue_declare("qi")
    await asyncio.sleep(case["phase_us"] / 1e6)
    nc = b.get_consumer("qi", None, None, MessageCategory.NORMAL)
    await nc.start()
    got: list = []

    async def consumer():
        while True:
            k, _p, _q = await nc.consume()
            got.append((k.id_, loop.time()))
            await b.ack(k)

    ct = asyncio.ensure_future(consumer())
    await asyncio.sleep(case["idle_us"] / 1e6)
    now = vclock.VDateTime.now()
    ttl = timedelta(microseconds=case["ttl_us"])
    ts = now - ttl - timedelta(microseconds=case["expired_by_us"])
    expiry = vclock.secs(ts) + ttl.total_seconds()
    t_enq = loop.time()
    await b.enqueue(RoutingKey(topic="t0", queue="qi", priority=case["prio"], id_="x1"), "p", Parameters(timestamp=ts, ttl=ttl))
    await asyncio.sleep(2.5)
    ct.cancel()
    await asyncio.gather(ct, return_exceptions=True)
    await nc.finish()
    await asyncio.sleep(0.2)
    kinds = sorted(p.kind for p in env.probe().get("x1", []))
    tag = (f"message with ttl {ttl}, enqueued at {t_enq:.6f} to a consumer idle for {case['idle_us'] / 1e6:.3f}s, expiry {expiry:.6f} "
           f"({'expired ' + str(case['expired_by_us']) + 'us before' if case['expired_by_us'] > 0 else 'alive'})")
    if case["expired_by_us"] > 0:
        if got:
            out.v("expired-delivered", f"{tag}: handed to the consumer at {got[0][1]:.6f}", broker=case["broker"], idle=True)
        elif kinds != ["dead"]:
            out.v("expired-not-dead", f"{tag}: expected in the dead-letter category, found {kinds}", broker=case["broker"], idle=True)
    else:
        if not got:
            out.v("live-not-delivered", f"{tag}: not delivered within 2.5 s; places {kinds}", broker=case["broker"], idle=True)
    out.nontrivial = 0 < case["expired_by_us"] < 1_000_000 and case["idle_us"] > 300_000
    out.cls("broker-" + case["broker"], "expired-on-arrival" if case["expired_by_us"] > 0 else "alive-on-arrival",
            "idle>1s" if case["idle_us"] > 1_000_000 else "idle<=1s")


def run_idle(case: dict) -> Outcome:
    out = Outcome()
    try:
        vclock.run(lambda loop: _idle(loop, case, out), max_steps=400_000)
    except (vclock.StepLimit, vclock.Deadlock) as e:
        out.inconclusive = True
        out.info["watchdog"] = str(e)
    return out


def _judge(out, case, env, loop, id_, got, pr_end, pr_after, params, expiry, due, t_c, t_end, slack, lag, kind):
    kinds_at_end = sorted(p.kind for p in pr_end.get(id_, []))
    places = pr_after.get(id_, [])
    kinds = sorted(p.kind for p in places)
    got = True if got else None
    tag = (f"{kind} message {id_}, ttl {case['ttl_us'] / 1e6}s, expiry {expiry}, due {due}, consume started {t_c:.6f} "
           f"(eps {case['eps_us']}us), ended {t_end:.6f}")
    band = "unconstrained"
    if expiry is not None and t_c > expiry + slack:
        band = "after-expiry"
        if got is not None:
            out.v("expired-delivered", f"{tag}: handed to a NORMAL consumer after its time-to-live ran out", broker=case["broker"], kind=kind)
        elif due is None or due <= t_c - lag:
            # it was looked at by the consumer: must now be dead-lettered and retrievable there
            if kinds != ["dead"]:
                out.v("expired-not-dead", f"{tag}: expected in the dead-letter category, found {[p.short() for p in places]}",
                      broker=case["broker"], kind=kind)
    elif expiry is None or t_end < expiry - slack or (
            case["broker"] == "mem" and due is None and case.get("copies", 1) == 1 and round(t_c * 1e6) <= round(expiry * 1e6)):
        # (the in-memory broker decides at the very instant consume() starts: "exactly at expiry" is still live)
        band = "before-expiry"
        deliverable = due is None or due <= t_c - 1e-9
        if "dead" in kinds_at_end:
            out.v("live-dead-lettered", f"{tag}: dead-lettered although its time-to-live had not run out", broker=case["broker"], kind=kind)
        elif got is None and deliverable and (due is None or t_end - max(due, t_c) >= lag):
            out.v("live-not-delivered", f"{tag}: not delivered although live and due; places {[p.short() for p in places]}",
                  broker=case["broker"], kind=kind)


def run_ttl(case: dict) -> Outcome:
    out = Outcome()
    try:
        vclock.run(lambda loop: _ttl(loop, case, out), max_steps=150_000, max_vtime=400.0, tz=case.get("tz"))
    except vclock.StepLimit as e:
        # the scenario needs a few thousand loop steps at most (no polling without a consumer, patience <= 2.5 s):
        # 150 000 steps mean the broker spins on the message without making progress
        if "virtual time" in str(e):
            out.inconclusive = True
        else:
            out.v("livelock", f"broker did not settle an expiring message within 150000 loop steps ({case['kind']}, eps {case['eps_us']}us)",
                  broker=case["broker"])
    except vclock.Deadlock as e:
        out.inconclusive = True
        out.info["watchdog"] = str(e)
    return out


# ----------------------------------------------------------------------------- worker level


@st.composite
def worker_ttl_case(draw, broker):
    ttl = draw(st.integers(1, 20))
    eps = draw(st.one_of(st.sampled_from([-3.0, -2.0, 0.002, 0.5, 2.0, 5.0]), st.integers(-5000, 5000).map(lambda ms: ms / 1000)))
    jobs = [{"id": "t0", "actor": "a0", "queue": "q0", "ttl": ttl, "retries": 0, "store_result": False,
             "attempts": [{"k": "ret", "v": 1, "sleep": 0.0}], "enqueue_at": 0.0},
            {"id": "live", "actor": "a0", "queue": "q0", "retries": 0, "store_result": False,
             "attempts": [{"k": "ret", "v": 2, "sleep": 0.0}], "enqueue_at": 0.0}]
    case = {"broker": broker, "seed": draw(st.integers(0, 2**16)), "converter": "basic",
            "actors": [{"name": "a0", "queue": "q0", "shape": "plain"}], "policy": None,
            "worker": {"tasks_limit": draw(st.sampled_from([1, 5])), "start_at": max(0.0, ttl + eps)}, "jobs": jobs,
            "eps": eps, "horizon": ttl + eps + 12.0}
    if broker != "mem":
        case["lat"] = draw(st.lists(st.sampled_from([0.0, 0.001]), max_size=8))
    return case


def run_worker(case: dict) -> Outcome:
    out = Outcome()

    def settled(tr):
        pr = tr.env.probe()
        return not any(p.kind in ("waiting", "held") for v in pr.values() for p in v)

    try:
        tr = scenario.run_case(case, settled=settled)
    except (vclock.StepLimit, vclock.Deadlock) as e:
        out.inconclusive = True
        out.info["watchdog"] = str(e)
        return out
    if tr.run_error is not None:
        out.v("worker-died", f"Worker.run() raised {tr.run_error!r}")
    ttl = case["jobs"][0]["ttl"]
    key, payload, params = tr.enqueued["t0"]
    expiry = vclock.secs(params.timestamp) + ttl
    start = tr.worker_started_at or 0.0
    slack = sum(case.get("lat", [])) + 1e-6
    ex = tr.execs_of("t0")
    places = sorted(p.kind for p in tr.final.get("t0", []))
    tag = f"job with ttl {ttl}s (expiry {expiry:.6f}), worker started at {start:.6f}"
    band = "unconstrained"
    if start > expiry + slack:
        band = "after-expiry"
        if ex:
            out.v("expired-executed", f"{tag}: actor ran at {ex[0].t0:.6f}", broker=case["broker"])
        # (also when the scenario ran into its horizon, 12 s after the worker started: that is far beyond any pickup latency)
        if places != ["dead"]:
            out.v("expired-not-dead", f"{tag}: final places {places}", broker=case["broker"])
    elif ex and ex[0].t0 > expiry + slack + 2.0:
        out.v("expired-executed", f"{tag}: actor ran at {ex[0].t0:.6f}, long after expiry", broker=case["broker"])
    elif start + 2.0 < expiry - slack:
        band = "before-expiry"
        if not ex:
            out.v("live-not-executed", f"{tag}: actor never ran; places {places}", broker=case["broker"])
        if "dead" in places:
            out.v("live-dead-lettered", f"{tag}: dead-lettered", broker=case["broker"])
    if not tr.execs_of("live"):
        out.v("live-not-executed", f"job without ttl never ran; places {[p.kind for p in tr.final.get('live', [])]}", broker=case["broker"])
    out.cls("broker-" + case["broker"], "band-" + band)
    out.nontrivial = band != "unconstrained"
    return out


# ----------------------------------------------------------------------------- expiry while the worker is saturated


@st.composite
def saturated_case(draw, broker):
    """The worker is at its tasks_limit (consumption paused) when a message with a short time-to-live arrives; it expires before a
    slot frees.  It is then an expired message like any other: not executed, dead-lettered."""
    busy = draw(st.sampled_from([3.0, 4.0]))
    ttl = draw(st.sampled_from([1, 2]))
    at = draw(st.sampled_from([0.3, 0.6, 0.9]))
    # every slot is taken by a long job of queue q0; the short-lived message arrives on q1 (or q0), where another message may already be
    # waiting for a slot in the worker's hands (its consumer paused, its prefetch window not full)
    tl = draw(st.sampled_from([1, 1, 2, 3]))
    q = draw(st.sampled_from(["q0", "q1", "q1"]))
    actor = {"q0": "a0", "q1": "a1"}[q]
    jobs = [{"id": f"busy{i}" if i else "busy", "actor": "a0", "queue": "q0", "retries": 0, "store_result": False,
             "attempts": [{"k": "ret", "v": 0, "sleep": busy}], "enqueue_at": 0.0} for i in range(tl)]
    jobs += [{"id": "t0", "actor": actor, "queue": q, "ttl": ttl, "retries": 0, "store_result": False,
              "attempts": [{"k": "ret", "v": 1, "sleep": 0.0}], "enqueue_at": at},
             {"id": "live", "actor": actor, "queue": q, "retries": 0, "store_result": False,
              "attempts": [{"k": "ret", "v": 2, "sleep": 0.0}], "enqueue_at": draw(st.sampled_from([0.1, 0.1, at + 0.1]))}]
    case = {"broker": broker, "seed": draw(st.integers(0, 2**16)), "converter": "basic",
            "actors": [{"name": "a0", "queue": "q0", "shape": "plain"}, {"name": "a1", "queue": "q1", "shape": "plain"}], "policy": None,
            "worker": {"tasks_limit": tl}, "jobs": jobs, "horizon": busy + 12.0}
    if broker != "mem":
        case["lat"] = draw(st.lists(st.sampled_from([0.0, 0.001]), max_size=8))
    return case


def run_saturated(case: dict) -> Outcome:
    out = Outcome()

    def settled(tr):
        pr = tr.env.probe()
        return not any(p.kind in ("waiting", "held") for v in pr.values() for p in v)

    handed: list = []  # (id, t) whenever a consumer's consume() returns a message to the worker

    def hook(trace, worker):
        mb = trace.conn.message_broker
        try:
            real = object.__getattribute__(mb, "_real")
        except AttributeError:
            real = mb
        orig = real.get_consumer

        def get_consumer(*a, **k):
            c = orig(*a, **k)
            inner = c.consume

            async def consume():
                r = await inner()
                handed.append((r[0].id_, trace.env.loop.time()))
                return r

            c.consume = consume
            return c

        real.get_consumer = get_consumer

    try:
        tr = scenario.run_case(case, settled=settled, hook=hook)
    except (vclock.StepLimit, vclock.Deadlock) as e:
        out.inconclusive = True
        out.info["watchdog"] = str(e)
        return out
    if tr.run_error is not None:
        out.v("worker-died", f"Worker.run() raised {tr.run_error!r}")
    busy = tr.execs_of("busy")
    key, payload, params = tr.enqueued["t0"]
    tjob = scenario.job_of(case, "t0")
    expiry = vclock.secs(params.timestamp) + tjob["ttl"]
    ex = tr.execs_of("t0")
    places = sorted(p.kind for p in tr.final.get("t0", []))
    if not busy or busy[0].t1 is None or busy[0].t1 < expiry + 0.2:
        out.cls("not-saturated-long-enough")
        return out
    tag = f"job with ttl {tjob['ttl']}s enqueued at {tr.enqueue_t['t0']:.3f} (expiry {expiry:.3f}) while the only slot was taken until {busy[0].t1:.3f}"
    # "at the moment it would be delivered": the moment the consumer hands it to the worker.  A message the worker received while it
    # was live and that then waited for a slot past its expiry was delivered in time (what the worker does with it is not judged);
    # one that the consumer hands over after the expiry is an expired delivery
    slack = sum(case.get("lat", [])) + 1e-6
    late = [t for i, t in handed if i == "t0" and t > expiry + slack]
    if late:
        out.v("expired-delivered", f"{tag}: the consumer handed it to the worker at {late[0]:.6f}, after its expiry"
              + (f"; the actor ran at {ex[0].t0:.6f}" if ex else ""), broker=case["broker"], saturated=True)
    elif not any(i == "t0" for i, _ in handed) and places != ["dead"]:
        out.v("expired-not-dead", f"{tag}: never handed to the worker, final places {places}", broker=case["broker"], saturated=True)
    if not tr.execs_of("live"):
        out.v("live-not-executed", f"job without ttl never ran; places {[p.kind for p in tr.final.get('live', [])]}", broker=case["broker"])
    out.nontrivial = True
    out.cls("broker-" + case["broker"], "expires-while-saturated")
    return out


def _t(b):
    return lambda: ttl_case(b)


def _w(b):
    return lambda: worker_ttl_case(b)


CHECK = Check(
    pid="C12",
    level="exploration",
    rule=(
        "Generated messages with ttl 1-60 s of kinds immediate / delayed due before or after expiry / retried (timestamp kept by "
        "_prepare_retry) / rescheduled (fresh clock from _prepare_reschedule) / without ttl; a NORMAL consumer (or a worker) is started "
        "so that the delivery instant is expiry+eps, eps in +-{0, 1 us, 1 ms, 2 ms, 0.5 s, ..10 s} (exactly 0 reachable on every broker, "
        "decisive on the in-memory one). Oracle with expiry = params.timestamp+ttl as carried and slack = sum of generated latencies: "
        "consume started after expiry+slack => not handed over / actor not run, message in the dead category and retrievable there with "
        "identical payload and parameters; whole consume window before expiry-slack (or no ttl) => delivered when due, never in dead. "
        "Cases inside the slack band are counted as unconstrained. Non-trivial = constrained band and (|eps|<=1 s or a "
        "delayed/retried/rescheduled kind)."
    ),
    assumptions=["virtual clock; Redis and RabbitMQ are in-process server models"],
    subchecks=[
        SubCheck("ttl-mem", _t("mem"), run_ttl, quick=80, thorough=2500),
        SubCheck("ttl-redis", _t("redis"), run_ttl, quick=60, thorough=2000),
        SubCheck("ttl-amqp", _t("amqp"), run_ttl, quick=60, thorough=2000),
        SubCheck("idle-mem", lambda: idle_case("mem"), run_idle, quick=25, thorough=800),
        SubCheck("idle-redis", lambda: idle_case("redis"), run_idle, quick=15, thorough=500),
        SubCheck("idle-amqp", lambda: idle_case("amqp"), run_idle, quick=15, thorough=500),
        SubCheck("worker-mem", _w("mem"), run_worker, quick=10, thorough=300),
        SubCheck("worker-redis", _w("redis"), run_worker, quick=10, thorough=300),
        SubCheck("worker-amqp", _w("amqp"), run_worker, quick=10, thorough=300),
        SubCheck("saturated-mem", lambda: saturated_case("mem"), run_saturated, quick=4, thorough=100),
        SubCheck("saturated-redis", lambda: saturated_case("redis"), run_saturated, quick=4, thorough=100),
        SubCheck("saturated-amqp", lambda: saturated_case("amqp"), run_saturated, quick=4, thorough=100),
    ],
)
