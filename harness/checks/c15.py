"""C15 — Within a queue and priority, delivery is first-in first-out."""
from __future__ import annotations

from hypothesis import strategies as st

from harness import brokerops, names, vclock
from harness.core import Check, Outcome, SubCheck


@st.composite
def fifo_case(draw, broker):
    prio = draw(st.sampled_from([0, 5, 5, 9]))
    foreign = draw(st.booleans())
    mode = draw(st.sampled_from(["drain", "drain", "interleaved", "rejects", "foreign-run", "pause", "racing", "returned-due"]))
    ops = []
    # other priority levels in the same queue: first-in first-out is demanded inside each level, whatever the others hold
    mixed = draw(st.integers(0, 2)) == 0
    big_bodies = draw(st.integers(0, 3)) == 0
    # a message's own timestamp says when its job object was made, not when it was enqueued: first-in first-out is about the latter
    aged = draw(st.integers(0, 2)) == 0
    others = [p for p in (0, 5, 9) if p != prio]

    def enq(n):
        for _ in range(n):
            t = "tF" if foreign and draw(st.integers(0, 3)) == 0 else "t0"
            pr = draw(st.sampled_from([prio, prio] + others)) if mixed else prio
            # a few messages carry a large body (70-200 KB): size must not change their place in the order
            big = "B" * draw(st.sampled_from([70_000, 200_000])) if big_bodies and draw(st.integers(0, 4)) == 0 else ""
            ops.append({"op": "enq", "q": "qf", "topic": t, "prio": pr, "delay": None, "payload": big, "client": "p0",
                        "age": draw(st.sampled_from([0.0, 0.0, 0.25, 2.0, 45.0])) if aged else 0.0})

    start = {"op": "start", "q": "qf", "client": "c0", "topics": ["t0"] if foreign or draw(st.booleans()) else None,
             "category": "NORMAL", "max_unacked": draw(st.sampled_from([None, 1, 3]))}
    consume = {"op": "consume", "c": 0, "patience": {"mem": 0.2, "redis": 1.0, "amqp": 0.5}[broker]}
    if mode == "drain":
        n = draw(st.one_of(st.integers(1, 12), st.integers(1, 12), st.integers(8, 30), st.integers(8, 30), st.integers(8, 30), st.sampled_from([60, 101, 150])))
        if draw(st.booleans()):
            ops.append(start)
            enq(n)
        else:
            enq(n)
            if broker == "redis" and draw(st.integers(0, 2)) == 0:
                # a producer enqueues an id again that is still waiting (Redis keeps one stored message per id): the message keeps
                # the place its first enqueue gave it, later arrivals do not get ahead of it
                for _ in range(draw(st.integers(1, 3))):
                    ops.append({"op": "enq", "q": "qf", "again": draw(st.integers(0, 30)), "client": "p0"})
                    if draw(st.booleans()):
                        enq(draw(st.integers(1, 2)))
                        n = sum(1 for o in ops if o["op"] == "enq" and o.get("again") is None)
            ops.append(start)
        for _ in range(n):
            ops += [dict(consume), {"op": "ack", "c": 0, "i": 0}]
    elif mode == "interleaved":
        enq(draw(st.integers(11, 16)))
        ops.append(start)
        for _ in range(draw(st.integers(2, 8))):
            k = draw(st.integers(1, 3))
            enq(k)
            for _ in range(k):
                ops += [dict(consume), {"op": "ack", "c": 0, "i": 0}]
        for _ in range(20):
            ops += [dict(consume), {"op": "ack", "c": 0, "i": 0}]
    elif mode == "racing":
        # a producer enqueues while the consumer's take is in flight (its round trips interleave with the consumer's)
        n = draw(st.integers(2, 8))
        enq(n)
        ops.append(start)
        total = n
        for _ in range(draw(st.integers(2, 8))):
            ops.append({"op": "launch", "c": 0})
            k = draw(st.integers(1, 2))
            enq(k)
            total += k
            ops.append({"op": "collect", "patience": {"mem": 0.2, "redis": 1.0, "amqp": 0.5}[broker]})
            ops.append({"op": "ack", "c": 0, "i": 0})
        for _ in range(total + 2):
            ops += [dict(consume), {"op": "ack", "c": 0, "i": 0}]
    elif mode == "returned-due":
        # the returned message carries a schedule that is already due (a retried job with a zero back-off, a recurring job at its
        # slot): it is an immediately deliverable message like any other and comes back before what is enqueued after its return
        # (one scheduled message per history: how several due schedules are ordered among themselves - by due time on Redis - is
        #  not what the property speaks about; everything enqueued after the return is an ordinary message)
        ops.append(start)
        ops.append({"op": "enq", "q": "qf", "topic": "t0", "prio": prio, "delay": {"kind": "net", "delta": draw(st.sampled_from([0.0, -0.5, -30.0]))},
                    "payload": "", "client": "p0", "retries": 2, "tried": 1})
        ops.append({"op": "advance", "dt": draw(st.sampled_from([0.01, 0.3, 1.2]))})
        ops.append(dict(consume))
        for _ in range(draw(st.integers(1, 3))):
            ops.append({"op": "reject", "c": 0, "i": 0})
            enq(draw(st.integers(1, 3)))
            ops.append(dict(consume))
        ops.append({"op": "ack", "c": 0, "i": 0})
        for _ in range(12):
            ops += [dict(consume), {"op": "ack", "c": 0, "i": 0}]
    elif mode == "pause":
        # consumption is paused and resumed while messages wait (some of them already prefetched by the consumer)
        n = draw(st.integers(4, 20))
        enq(n)
        ops.append(start)
        total = n
        k = draw(st.integers(0, 3))
        for _ in range(k):
            ops += [dict(consume), {"op": "ack", "c": 0, "i": 0}]
        for _ in range(draw(st.integers(1, 2))):
            ops.append({"op": "pause", "c": 0})
            # (RabbitMQ: a delivery that arrives while the consumer is paused is bounced - rejected after 0.1 s - by design; that
            #  is a return made by the consumer itself, after which later messages may legitimately come first.  Arrivals during
            #  the pause are therefore generated for the other brokers only.)
            if broker != "amqp" and draw(st.booleans()):
                extra = draw(st.integers(1, 3))
                enq(extra)
                total += extra
            ops.append({"op": "advance", "dt": draw(st.sampled_from([0.01, 0.3, 1.2]))})
            ops.append({"op": "unpause", "c": 0})
            for _ in range(draw(st.integers(0, 2))):
                ops += [dict(consume), {"op": "ack", "c": 0, "i": 0}]
        for _ in range(total + 3):
            ops += [dict(consume), {"op": "ack", "c": 0, "i": 0}]
    elif mode == "foreign-run":
        # a run of foreign-topic messages at the old end that fills (at least) one fetch window, matching ones behind it,
        # deliveries returned and re-awaited, more arrivals meanwhile
        for _ in range(draw(st.integers(10, 14))):
            ops.append({"op": "enq", "q": "qf", "topic": "tF", "prio": prio, "delay": None, "payload": "", "client": "p0"})
        start = {**start, "topics": ["t0"]}
        m = draw(st.integers(3, 8))
        for _ in range(m):
            ops.append({"op": "enq", "q": "qf", "topic": "t0", "prio": prio, "delay": None, "payload": "", "client": "p0"})
        ops.append(start)
        for _ in range(m + 6):
            ops.append(dict(consume))
            r = draw(st.integers(0, 3))
            if r == 0:
                ops.append({"op": "reject", "c": 0, "i": 0})
                if draw(st.booleans()):
                    ops.append({"op": "enq", "q": "qf", "topic": "t0", "prio": prio, "delay": None, "payload": "", "client": "p0"})
            else:
                ops.append({"op": "ack", "c": 0, "i": 0})
    else:
        n = draw(st.integers(2, 14))
        enq(n)
        ops.append(start)
        for _ in range(n + 6):
            ops.append(dict(consume))
            r = draw(st.integers(0, 5))
            if r == 0:
                ops.append({"op": "reject", "c": 0, "i": 0})
                if draw(st.booleans()):
                    enq(draw(st.integers(1, 2)))
            elif r == 1:
                ops.append({"op": "requeue", "c": 0, "i": 0, "delay": None})
                if draw(st.booleans()):
                    enq(1)
            else:
                ops.append({"op": "ack", "c": 0, "i": 0})
    case = {"broker": broker, "seed": draw(st.integers(0, 2**16)), "ops": ops, "mode": mode}
    if draw(st.integers(0, 3)) == 0:
        names.rename_history(case, draw(st.sampled_from(names.STYLES)))  # legal but unusual queue / topic / message names
    if draw(st.integers(0, 5)) == 0:
        case["log"] = "DEBUG"  # host application logging at DEBUG: the library's log lines are all formatted
    if draw(st.integers(0, 5)) == 0:
        case["tz"] = draw(st.sampled_from(vclock.zones(3)))
    if broker != "mem":
        case["lat"] = {"p0": draw(st.lists(st.sampled_from([0.0, 0.001, 0.002]), max_size=15)) if mode == "racing" else [],
                       "c0": draw(st.lists(st.sampled_from([0.0, 0.001, 0.003]), max_size=15))}
    return case


def run(case: dict) -> Outcome:
    out = Outcome()
    try:
        w = brokerops.run(case, max_steps=250_000)
    except vclock.StepLimit as e:
        if "virtual time" in str(e):
            out.inconclusive = True
        else:
            # these histories need a few thousand loop steps; hundreds of thousands mean a broker call spins without progress
            out.v("livelock", f"history did not finish within the loop-step watchdog ({e}): a broker call spins without making progress",
                  broker=case["broker"])
        return out
    except vclock.Deadlock as e:
        out.inconclusive = True
        out.info["watchdog"] = str(e)
        return out
    # event stream: ("enq", id) / ("deliver", id) / ("return", id) in execution order
    stream = []
    for e in w.events:
        k = e["op"]["op"]
        if k == "enq" and e.get("again"):
            continue
        if k == "enq" and e.get("done"):
            stream.append(("enq", None, e))
        elif k == "consume" and "id" in e:
            stream.append(("deliver", e["id"], e))
        elif k == "collect":
            for got in e.get("collected", []):
                stream.append(("deliver", got["id"], e))
        elif k in ("reject", "requeue") and e.get("done") and "id" in e:
            stream.append(("return", e["id"], e))
    seq = [(kind, e["id"] if kind == "enq" else id_) for kind, id_, e in stream]
    own = names.renamed(case, "t", "t0")
    matching = {m.id for m in w.msgs.values() if m.topic == own}
    levels: dict[int, list[str]] = {}  # per priority: matching messages currently in the queue, in the order FIFO must serve them
    fresh: set[str] = set()  # never returned
    n_match = 0
    for kind, id_ in seq:
        if id_ not in matching:
            continue
        waiting = levels.setdefault(w.msgs[id_].prio, [])
        if kind == "enq":
            waiting.append(id_)
            fresh.add(id_)
            n_match += 1
        elif kind == "return":
            fresh.discard(id_)
            waiting.append(id_)  # must be served no later than anything enqueued from now on
        elif kind == "deliver":
            if id_ not in waiting:
                continue
            pos = waiting.index(id_)
            ahead = waiting[:pos]
            # messages ahead of it: never-returned ones enqueued earlier must not be overtaken by a never-returned one;
            # a returned message may be overtaken only by messages that were already enqueued when it returned
            if id_ in fresh:
                over = [a for a in ahead if a in fresh]
                if over:
                    out.v("overtaken", f"message {id_} delivered while {len(over)} earlier-enqueued message(s) of the same priority "
                          f"were still waiting ({over[:5]}...), backlog {len(waiting)}", broker=case["broker"],
                          backlog_over_10=len(waiting) > 10)
                    break
                late_returned = [a for a in ahead if a not in fresh]
                if late_returned:
                    out.v("returned-overtaken", f"message {id_}, enqueued after {late_returned[0]} was returned, was delivered before it",
                          broker=case["broker"])
                    break
            waiting.remove(id_)
    # everything matching must have been delivered by the end (the history drains the queue)
    undelivered = [i for lv in levels.values() for i in lv]
    waiting = undelivered
    if undelivered and case["mode"] not in ("rejects", "foreign-run"):
        drained = sum(1 for k, _ in seq if k == "deliver")
        timeouts = sum(1 for e in w.events if e["op"]["op"] == "consume" and e.get("timeout"))
        if timeouts >= 2:
            start = next(o for o in case["ops"] if o["op"] == "start")
            first_un = min(w.msgs[i].seq0 for i in undelivered)
            low_un = min(w.msgs[i].prio for i in undelivered)
            # a foreign-topic message is served before it: enqueued earlier, or sitting in a higher priority level
            foreign_ahead = any(m.topic != own and (m.seq0 < first_un or m.prio > low_un) for m in w.msgs.values())
            out.v("starved", f"{len(undelivered)} matching message(s) never delivered although the consumer kept consuming "
                  f"({drained} deliveries, {timeouts} empty polls): {undelivered[:5]}", broker=case["broker"],
                  foreign_head_of_line=bool(foreign_ahead and start.get("max_unacked") is not None))
    out.nontrivial = n_match >= 3
    out.cls("broker-" + case["broker"], "mode-" + case["mode"], "more-than-10" if n_match > 10 else "up-to-10",
            "foreign-topics" if any(m.topic != names.renamed(case, "t", "t0") for m in w.msgs.values()) else "no-foreign",
            "several-priorities" if len(levels) > 1 else "one-priority")
    return out


def _s(b):
    return lambda: fifo_case(b)


CHECK = Check(
    pid="C15",
    level="exploration",
    rule=(
        "Histories with one consumer, one priority level or (a third of the cases) several levels mixed in one queue: 1-30 distinguishable immediately deliverable messages (crossing Redis's fetch "
        "window of 10), foreign topics interleaved, modes enqueue-all-then-drain / interleaved enqueue+consume with a backlog kept >= 11 / "
        "deliveries rejected or requeued and re-awaited; prefetch limits None/1/3; three brokers. Oracle: a never-returned message is "
        "never delivered while an earlier-enqueued never-returned matching message is still waiting; a returned message is delivered "
        "before every message enqueued after its return; nothing matching is left undelivered while the consumer keeps polling. "
        "Non-trivial = >=3 matching messages (counted separately: more than 10)."
    ),
    assumptions=["virtual clock; Redis and RabbitMQ are in-process server models", "order across priorities or among delayed messages is not demanded"],
    subchecks=[
        SubCheck("mem", _s("mem"), run, quick=40, thorough=1500),
        SubCheck("redis", _s("redis"), run, quick=60, thorough=2000),
        SubCheck("amqp", _s("amqp"), run, quick=60, thorough=2000),
    ],
)
