"""C09 — Concurrency never exceeds tasks_limit and the worker never stalls."""
from __future__ import annotations

from hypothesis import strategies as st

from harness import gen, scenario, vclock
from harness.core import Check, Outcome, SubCheck

GRID = st.integers(0, 16).map(lambda k: k * 0.25)
# pickup latency allowance per broker: polling constants in the code (+ generated latencies, added per case)
L_PICKUP = {"mem": 0.3, "redis": 0.9, "amqp": 0.5}
L_LATE = {"mem": 1.15, "redis": 1.65, "amqp": 0.15}  # promotion latency of a delayed message after its due time (as in C05)


def _dur(j: dict) -> float:
    o = j["attempts"][0]
    return (j.get("timeout", 0) + o.get("cleanup", 0.0)) if o["k"] == "timeout" else o["sleep"]


@st.composite
def conc_case(draw, brokers):
    broker = draw(st.sampled_from(list(brokers)))
    tl = draw(st.integers(1, 5))
    nq = draw(st.integers(1, 3))
    actors = [{"name": f"a{i}", "queue": f"q{i}", "shape": "plain"} for i in range(nq)]
    n = draw(st.one_of(st.integers(1, 8), st.integers(1, 25)))
    jobs = []
    for i in range(n):
        a = draw(st.sampled_from(actors))
        dur = draw(st.one_of(GRID, st.just(0.0), st.sampled_from([0.25, 0.5, 1.0])))
        r = draw(st.integers(0, 9))
        # an actor that ends cancelled leaves its message without a disposition; on RabbitMQ that unacked message keeps
        # occupying the server-side prefetch window, which is not the slot accounting this property is about
        kind = "raise" if r < 2 else ("cancel" if r == 2 and broker != "amqp" else ("timeout" if r == 3 else "ret"))
        j = {"id": f"j{i}", "actor": a["name"], "queue": a["queue"], "retries": 0, "store_result": draw(st.integers(0, 2)) == 0,
             "attempts": [{"k": kind, "exc": "ValueError", "text": "f", "v": i, "sleep": dur}]}
        if draw(st.integers(0, 3)) == 0:
            j["priority"] = draw(st.sampled_from([0, 9]))
        if kind == "timeout":
            # the execution timeout expires; the actor may take a while to unwind (cleanup after the cancellation) and
            # occupies its slot until it has
            j["timeout"] = 1
            j["attempts"][0].update({"sleep": 0.0, "extra": 5.0, "cleanup": draw(st.sampled_from([0.0, 0.25, 0.8]))})
        if kind == "ret" and draw(st.integers(0, 7)) == 0:
            # a time-to-live that may run out while the message waits (in the queue: dead-lettered, never executed; after it was
            # fetched, while waiting for a slot: whatever the worker does with it, consumption must go on)
            j["ttl"] = draw(st.sampled_from([1, 2, 3]))
        mode = draw(st.sampled_from(["before", "before", "burst", "after"])) if i > 0 else "before"
        if mode == "burst":
            j["enqueue_at"] = draw(st.one_of(GRID, st.integers(0, 6000).map(lambda ms: ms / 1000)))
        elif mode == "after":
            j["after"] = f"j{draw(st.integers(0, i - 1))}"
            j["after_delay"] = draw(st.sampled_from([0, 0, 0.001, 0.01]))
        # (RabbitMQ: one deferred job per case - several per-message expirations in one delayed queue block each other, known finding D19)
        if mode != "after" and kind == "ret" and "ttl" not in j and draw(st.integers(0, 5)) == 0 and not (
                broker == "amqp" and any("defer_until" in x for x in jobs)):
            # deferred a little: it waits in the delayed category first and is deliverable from its due time on
            j["defer_until"] = round(j.get("enqueue_at", 0.0) + draw(st.sampled_from([0.3, 0.8, 1.5])), 3)
        jobs.append(j)
    case = {"broker": broker, "seed": draw(st.integers(0, 2**16)), "converter": "basic", "actors": actors,
            "policy": None, "worker": {"tasks_limit": tl}, "jobs": jobs}
    if broker != "mem":
        case["lat"] = draw(st.lists(st.sampled_from([0.0, 0.001, 0.003]), max_size=20))
    deferred = [j for j in jobs if "defer_until" in j]
    if deferred and draw(st.booleans()):
        # an operator's tool looks into the delayed category: it takes a waiting message before it is due, still holds it when the due
        # time passes, and hands it back.  From then on it is deliverable like any other
        d = draw(st.sampled_from(deferred))
        case["inspect"] = [{"at": max(0.0, round(d["defer_until"] - draw(st.sampled_from([0.05, 0.2])), 3)), "queue": d["queue"],
                            "category": "DELAYED", "n": draw(st.integers(1, 2)), "hold": draw(st.sampled_from([0.1, 0.4, 1.0])),
                            "how": draw(st.sampled_from(["reject", "close"]))}]
    gen.host_dims(draw, case, prio=False, rename=not deferred)
    total = sum(_dur(j) for j in jobs)
    latest = max([j.get("enqueue_at", 0.0) for j in jobs] + [0.0])
    latest = max([latest] + [j["defer_until"] + 1.5 for j in jobs if "defer_until" in j])
    case["horizon"] = round(latest + total + len(jobs) * (L_PICKUP[broker] + 0.2) + 6.0, 3)
    return case


def _settled(tr: scenario.Trace) -> bool:
    n = len(tr.case["jobs"])
    # (a message whose actor ended cancelled is left without a disposition: its fate is not this property's business)
    lost = {j["id"] for j in tr.case["jobs"] if j["attempts"][0]["k"] == "cancel"}
    pr = tr.env.probe()
    expired = {j["id"] for j in tr.case["jobs"] if j.get("ttl") and [p.kind for p in pr.get(j["id"], [])] == ["dead"]}
    done = {e.id for e in tr.execs} | expired
    return len(done) >= n and all(e.end != "running" for e in tr.execs) and not any(
        p.kind in ("waiting", "held") for i, v in pr.items() if i not in lost for p in v)


def run(case: dict) -> Outcome:
    out = Outcome()
    tl = case["worker"]["tasks_limit"]
    try:
        tr = scenario.run_case(case, settled=_settled)
    except (vclock.StepLimit, vclock.Deadlock) as e:
        out.inconclusive = True
        out.info["watchdog"] = str(e)
        return out
    if tr.run_error is not None:
        out.v("worker-died", f"Worker.run() raised {tr.run_error!r}")
    for e in tr.errors:
        out.v("worker-stuck", e)
    if tr.max_active > tl:
        out.v("limit-exceeded", f"{tr.max_active} actor invocations in progress at once, tasks_limit={tl}", excess=tr.max_active - tl)
    n = len(case["jobs"])
    started = {e.id for e in tr.execs}
    lat_sum = sum(case.get("lat", []))
    L = L_PICKUP[case["broker"]] + lat_sum
    if tr.horizon_hit:
        # (a message whose time-to-live ran out before it was executed is dead-lettered, not executed: not a stall)
        expired = {j["id"] for j in case["jobs"] if j.get("ttl") and [p.kind for p in tr.final.get(j["id"], [])] == ["dead"]}
        missing = [j["id"] for j in case["jobs"] if j["id"] not in started and j["id"] in tr.enqueued and j["id"] not in expired]
        if missing:
            out.v("stalled", f"{len(missing)} of {n} jobs never started within the bound {case['horizon']}s "
                  f"(tasks_limit={tl}, sum of durations={sum(_dur(j) for j in case['jobs']):.2f}s): {missing[:6]}")
        elif any(e.end == "running" for e in tr.execs):
            out.inconclusive = True
    # double execution (retries=0, so each job runs once)
    for j in case["jobs"]:
        k = len(tr.execs_of(j["id"]))
        if k > 1:
            out.v("ran-twice", f"job {j['id']} executed {k} times")
    # free slot + deliverable message for longer than L without a start
    log = [(0.0, 0)] + tr.active_log
    for j in case["jobs"]:
        id_ = j["id"]
        if id_ not in tr.enqueue_t:
            continue
        # (deliverable from: enqueued, worker running, due, and not in the hands of somebody inspecting the delayed category)
        t_enq = max(tr.enqueue_t[id_], tr.worker_started_at or 0.0, j.get("defer_until", 0.0), tr.extra.get("released", {}).get(id_, 0.0))
        ex = tr.execs_of(id_)
        t_start = ex[0].t0 if ex else (tr.stop_requested_at or tr.final_t)
        # longest stretch inside [t_enq, t_start] with active < tl
        free_since = None
        worst = 0.0
        pts = [(t, a) for (t, a) in log]
        prev_a = 0
        for idx, (t, a) in enumerate(pts):
            nxt_t = pts[idx + 1][0] if idx + 1 < len(pts) else t_start
            lo, hi = max(t, t_enq), min(nxt_t, t_start)
            if a > prev_a:
                free_since = None  # some execution started here: progress was made
            prev_a = a
            if a < tl and hi > lo:
                if free_since is None:
                    free_since = lo
                worst = max(worst, hi - free_since)
            elif a >= tl:
                free_since = None
        # (a deferred message additionally needs the broker's promotion latency after its due time: whole-second scores on Redis,
        #  a migration every second of idle polling in memory)
        allow = L + (L_LATE[case["broker"]] if "defer_until" in j else 0.0)
        if worst > allow + 1e-9 and ex:
            out.v("slot-idle", f"job {id_} was deliverable from {t_enq:.3f}, a slot was free and nothing was started for {worst:.3f}s "
                  f"(> {allow:.3f}s) before it started at {t_start:.3f} (tasks_limit={tl})", broker=case["broker"])
            break
    saturated = n > tl and tr.max_active >= tl
    out.nontrivial = saturated
    out.cls("broker-" + case["broker"], f"tasks_limit-{tl}", "saturated" if saturated else "not-saturated",
            f"queues-{len(case['actors'])}", "arrive-at-completion" if any(j.get("after") for j in case["jobs"]) else "no-after")
    return out


# ----------------------------------------------------------------------------- sync actors that outlast their timeout


@st.composite
def sync_timeout_case(draw):
    """Sync actors run in threads; a thread cannot be cancelled.  When the execution timeout of a blocking sync actor expires, its
    body is still running: the invocation is in progress until the body has ended, and the slot is not free before that."""
    return {"tasks_limit": draw(st.sampled_from([2, 1])), "n": draw(st.integers(3, 5)), "block": draw(st.sampled_from([1.4, 1.8])),
            "seed": draw(st.integers(0, 999))}


async def _sync_timeout(loop, case, out: Outcome):
    import asyncio
    import threading
    import time as _time
    from datetime import timedelta

    from harness.brokers import Env, reset_globals
    from repid import BasicConverter, Job, Queue, Router, Worker

    reset_globals()
    env = Env("mem", loop, case["seed"])
    conn = env.connection("c0", None, buckets=False)
    await conn.connect()
    lock = threading.Lock()
    state = {"active": 0, "max": 0, "ran": 0}

    def work(x: int = 0):
        with lock:
            state["active"] += 1
            state["ran"] += 1
            state["max"] = max(state["max"], state["active"])
        try:
            _time.sleep(case["block"])  # real seconds: longer than the 1 s execution timeout
        finally:
            with lock:
                state["active"] -= 1
        return x

    router = Router()
    router.actor(work, name="work", queue="qs", converter=BasicConverter)
    await Queue("qs", _connection=conn).declare()
    for i in range(case["n"]):
        await Job("work", queue="qs", id_=f"s{i}", args={"x": i}, timeout=timedelta(seconds=1), _connection=conn).enqueue()
    w = Worker(routers=[router], tasks_limit=case["tasks_limit"], messages_limit=case["n"], handle_signals=[], _connection=conn)
    try:
        await asyncio.wait_for(w.run(), timeout=120.0)
    except asyncio.TimeoutError:
        out.v("worker-stuck", f"worker did not finish {case['n']} messages")
        return
    # let stray threads end before judging / before the next case
    for _ in range(100):
        if state["active"] == 0:
            break
        await asyncio.sleep(0.05)
    if state["max"] > case["tasks_limit"]:
        out.v("limit-exceeded", f"{state['max']} sync actor bodies were running at once, tasks_limit={case['tasks_limit']} "
              f"(each blocks {case['block']} s, execution timeout 1 s)", excess=state["max"] - case["tasks_limit"], sync=True)
    if state["ran"] != case["n"]:
        out.v("ran-twice" if state["ran"] > case["n"] else "stalled", f"{state['ran']} sync actor invocations for {case['n']} messages (retries=0)")
    out.nontrivial = case["n"] > case["tasks_limit"]
    out.cls(f"tasks_limit-{case['tasks_limit']}", "sync-timeout")


def run_sync_timeout(case: dict) -> Outcome:
    out = Outcome()
    try:
        vclock.run(lambda loop: _sync_timeout(loop, case, out), max_steps=3_000_000, thread_time=True)
    except (vclock.StepLimit, vclock.Deadlock) as e:
        out.inconclusive = True
        out.info["watchdog"] = str(e)
    return out


def _s(brokers):
    return lambda: conc_case(brokers)


CHECK = Check(
    pid="C09",
    level="exploration",
    rule=(
        "Generated workloads: tasks_limit 1-5, 1-3 queues sharing it, 1-25 jobs with durations on a 0.25 s grid in [0,4] (so completions "
        "and arrivals coincide), failure flags, arrivals before start / at grid instants while saturated / exactly when another job's "
        "body finishes (+0, 1, 10 ms); three brokers. Oracle: a counter of actor bodies in progress never exceeds tasks_limit; every job "
        "starts within a bound (sum of durations + n*pickup + 6 s); no job waits with a free slot for longer than the broker's pickup "
        "allowance (mem 0.3 s, redis 0.9 s, amqp 0.5 s + generated latencies); each job runs once. Non-trivial = more jobs than "
        "tasks_limit and saturation actually reached."
    ),
    assumptions=["virtual clock; Redis and RabbitMQ are in-process server models",
                 "'eventually' is decided as 'within the stated virtual-time bound'"],
    subchecks=[
        SubCheck("mem", _s(("mem",)), run, quick=40, thorough=1200),
        SubCheck("redis", _s(("redis",)), run, quick=40, thorough=1000),
        SubCheck("amqp", _s(("amqp",)), run, quick=40, thorough=1000),
        SubCheck("sync-timeout", sync_timeout_case, run_sync_timeout, quick=2, thorough=12, shards=4),
    ],
)
