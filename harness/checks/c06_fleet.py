"""C06 (iii) - a recurring job served by a fleet of workers with rolling stops.

NOTE: no `from __future__ import annotations` here - the actor's MessageDependency annotation must be a real object."""
import asyncio
import signal
from datetime import timedelta

from hypothesis import strategies as st

from harness import vclock
from harness.brokers import Env, reset_globals
from harness.core import Outcome

# ----------------------------------------------------------------------------- (iii) a fleet of workers, rolling stops


@st.composite
def fleet_case(draw, broker):
    """One recurring job served by 2-3 workers with their own connections; workers are stopped (and replaced) while the others keep
    running - a rolling restart.  Every slot must still run exactly once."""
    p = draw(st.sampled_from([1.0, 1.0, 1.5, 2.0]))
    nw = draw(st.integers(2, 3))
    case = {"broker": broker, "seed": draw(st.integers(0, 2**16)), "period": p, "workers": nw,
            "dur": draw(st.sampled_from([0.0, 0.05, 0.3, 0.6, 0.9])),
            "stops": [draw(st.one_of(st.none(), st.integers(300, 9000).map(lambda ms: ms / 1000))) for _ in range(nw)],
            "restart": draw(st.booleans()), "tasks_limit": draw(st.sampled_from([1, 1000])),
            "fail_every": draw(st.sampled_from([0, 0, 3])), "horizon": 11.0,
            # further recurring jobs created at the same instant (same time base): their slots coincide for ever
            "twins": draw(st.sampled_from([0, 0, 1, 2])), "tz": draw(st.sampled_from([None, None, *vclock.zones(3)]))}
    if all(x is None for x in case["stops"]):
        case["stops"][0] = 2.5
    if broker != "mem":
        case["lat"] = {f"w{i}": draw(st.lists(st.sampled_from([0.0, 0.001, 0.002, 0.005]), max_size=30)) for i in range(nw + 1)}
    return case


async def _fleet(loop, case, out: Outcome):
    from repid import BasicConverter, Job, MessageDependency, Queue, Router, Worker

    reset_globals()
    env = Env(case["broker"], loop, case["seed"])
    p = case["period"]
    runs: list = []  # (slot, start, worker)
    conns: list = []

    def worker(i: int):
        conn = env.connection(f"w{i}", (case.get("lat") or {}).get(f"w{min(i, case['workers'])}"), buckets=False)
        conns.append(conn)
        router = Router()

        async def rec(m: MessageDependency) -> int:
            d = m.parameters.delay
            slot = d.next_execution_time
            if slot is None and d.defer_by is not None:
                slot = m.parameters.timestamp + d.defer_by  # first run of Job(deferred_by=p): one period after its timestamp
            n = len(runs)
            runs.append((vclock.secs(slot) if slot is not None else None, loop.time(), f"w{i}", m.key.id_))
            if case["dur"]:
                await asyncio.sleep(case["dur"])
            if case["fail_every"] and n % case["fail_every"] == 1:
                raise ValueError("iteration failed")
            return n

        router.actor(rec, name="rec", queue="qr", converter=BasicConverter)
        return conn, Worker(routers=[router], tasks_limit=case["tasks_limit"], graceful_shutdown_time=5.0, _connection=conn)

    async def run_worker(i: int, start_at: float, stop_at):
        await asyncio.sleep(max(0.0, start_at - loop.time()))
        conn, w = worker(i)
        await conn.connect()
        t = asyncio.ensure_future(w.run())
        for _ in range(300):
            await asyncio.sleep(0)
            if loop.sig_handlers.get(int(signal.SIGTERM)):
                break
        h = loop.sig_handlers.pop(int(signal.SIGTERM), None)
        loop.sig_handlers.pop(int(signal.SIGINT), None)
        await asyncio.sleep(max(0.0, (stop_at if stop_at is not None else case["horizon"]) - loop.time()))
        if h is not None:
            try:
                h[0](*h[1])
            except ValueError:
                pass
        try:
            await asyncio.wait_for(t, timeout=40.0)
        except asyncio.TimeoutError:
            out.v("worker-stuck", f"worker w{i} did not return after its stop signal")
        except Exception as e:  # noqa: BLE001
            out.v("worker-died", f"worker w{i}: Worker.run() raised {e!r}")

    prod = env.connection("p0", None, buckets=False)
    await prod.connect()
    await Queue("qr", _connection=prod).declare()
    t_enq = loop.time()
    ids = ["rec"] + [f"twin{k}" for k in range(case.get("twins", 0))]
    jobs = [Job("rec", queue="qr", id_=i, deferred_by=timedelta(seconds=p), retries=0, _connection=prod) for i in ids]
    for j in jobs:
        await j.enqueue()
    tasks = []
    # (workers of one process register their signal handlers one after the other)
    for i in range(case["workers"]):
        tasks.append(asyncio.ensure_future(run_worker(i, 0.01 * i, case["stops"][i])))
        await asyncio.sleep(0.01)
    if case["restart"]:
        first = min(x for x in case["stops"] if x is not None)
        tasks.append(asyncio.ensure_future(run_worker(case["workers"], first + 0.2, None)))
    await asyncio.gather(*tasks)
    await asyncio.sleep(0.5)
    all_runs = runs
    pr_end = env.probe()
    for jid in ids:
        _judge_job(out, case, jid, [(sl, t0, w) for sl, t0, w, i in all_runs if i == jid], pr_end.get(jid, []), t_enq, p)
    runs = [(sl, t0, w) for sl, t0, w, i in all_runs]
    out.nontrivial = len(runs) >= 3 and len({w for _, _, w in runs}) >= 2
    out.cls("broker-" + case["broker"], f"workers-{case['workers']}", "restart" if case["restart"] else "no-restart",
            "several-workers-ran" if len({w for _, _, w in runs}) >= 2 else "one-worker-ran")


def _judge_job(out: Outcome, case: dict, jid: str, runs: list, places: list, t_enq: float, p: float) -> None:
    if len(places) != 1 or places[0].kind == "dead":
        out.v("successor-count", f"after {len(runs)} runs the recurring job {jid} must exist exactly once, found {[pl.short() for pl in places]}",
              broker=case["broker"])
    seen: dict = {}
    prev = None
    for slot, t0, w in runs:
        if slot is None:
            out.v("no-slot", f"run at {t0:.6f} on {w} carries no scheduled time")
            continue
        if t0 < slot - 0.001:
            out.v("run-before-slot", f"run on {w} started at {t0:.6f}, before its slot {slot:.6f}", broker=case["broker"])
        if slot in seen:
            out.v("slot-ran-twice", f"{jid}: slot {slot:.6f} was run by {seen[slot][1]} at {seen[slot][0]:.6f} and again by {w} at {t0:.6f} "
                  f"(period {p}, stops {case['stops']})", broker=case["broker"])
        elif prev is not None and slot < prev + p - 1e-6:
            out.v("cadence", f"slot {slot:.6f} follows slot {prev:.6f} by less than one period ({p})", broker=case["broker"])
        seen.setdefault(slot, (t0, w))
        prev = slot if prev is None else max(prev, slot)
    all_stopped_by = max((x for x in case["stops"] if x is not None), default=None) if not case["restart"] and all(
        x is not None for x in case["stops"]) else None
    serving_until = all_stopped_by if all_stopped_by is not None else case["horizon"]
    # (a loose progress bound, mainly against a vacuous run: an iteration that completes after the next slot skips it)
    pickup = {"mem": 1.15, "redis": 1.65, "amqp": 0.15}[case["broker"]]
    cycle = p * (int((case["dur"] * (1 + case.get("twins", 0)) + pickup) / p) + 1)
    expected_min = int((serving_until - t_enq) / cycle) - 3 - case["workers"]
    if len(runs) < expected_min:
        out.v("iterations-missing", f"{jid}: only {len(runs)} iterations ran in {serving_until - t_enq:.1f}s of service (period {p}, "
              f"duration {case['dur']}); at least {expected_min} expected", broker=case["broker"])


def run_fleet(case: dict) -> Outcome:
    out = Outcome()
    try:
        vclock.run(lambda loop: _fleet(loop, case, out), max_steps=2_500_000, jitter_seed=case["seed"] + 1, tz=case.get("tz"))
    except (vclock.StepLimit, vclock.Deadlock) as e:
        out.inconclusive = True
        out.info["watchdog"] = str(e)
    return out


