"""C14 — A message is held by at most one consumer at a time."""
# NOTE: no `from __future__ import annotations` (the worker-level actors carry real MessageDependency annotations)

import asyncio

from hypothesis import strategies as st

from harness import brokerops, names, scenario, vclock
from harness.brokers import Env, Spy, reset_globals
from harness.core import Check, Outcome, SubCheck

OWNED = {"double-delivery", "delivered-after-ack", "duplicated", "phantom-delivery", "delivered-twice"}


@st.composite
def holders_case(draw, broker):
    ncons = draw(st.integers(2, 4))
    clients = ["c0"] if broker == "mem" else ["c0", "c1", "c2"]
    if broker != "mem" and draw(st.integers(0, 2 if broker == "redis" else 1)) == 0:
        clients = ["c0"]  # every consumer in one process (one broker object): what one holds the other can see in shared tables
    ops = []
    nmsg = 0

    def burst(k):
        nonlocal nmsg
        for _ in range(k):
            nmsg += 1
            ops.append({"op": "enq", "q": "qa", "topic": "t0", "prio": draw(st.sampled_from([5, 5, 0, 9])), "delay": None,
                        "payload": f"p{nmsg}", "client": "p0", "timeout": draw(st.sampled_from([600, 2, 4, 2, 4, 86400, 2 * 86400, 86400 + 3]))})

    burst(draw(st.integers(1, 6)))
    for i in range(ncons):
        ops.append({"op": "start", "q": "qa", "client": clients[i % len(clients)] if draw(st.booleans()) else draw(st.sampled_from(clients)),
                    "topics": None, "category": "NORMAL", "max_unacked": draw(st.sampled_from([None, 1, 2]))})
    idx = st.integers(0, 5)
    for _ in range(draw(st.integers(2, 10))):
        r = draw(st.integers(0, 19))
        if r < 8:
            # launch consume on several consumers at once, then collect
            for c in draw(st.lists(st.integers(0, ncons - 1), min_size=2, max_size=ncons, unique=True)):
                ops.append({"op": "launch", "c": c})
            ops.append({"op": "collect", "patience": draw(st.sampled_from([0.05, 0.4, 0.8]))})
        elif r < 13:
            ops.append({"op": draw(st.sampled_from(["ack", "reject", "requeue", "requeue"])), "c": draw(idx), "i": draw(idx)})
        elif r < 14:
            burst(draw(st.integers(1, 3)))
        elif r < 15:
            ops.append({"op": "finish", "c": draw(idx)})
        elif r < 17:
            ops.append({"op": "advance", "dt": draw(st.sampled_from([0.01, 0.1, 0.5, 1.0, 3.0, 5.0]))})
            if draw(st.integers(0, 2)) == 0:
                ops.append({"op": draw(st.sampled_from(["pause", "unpause"])), "c": draw(idx)})
        elif r < 18 and broker != "mem":
            ops.append({"op": "kill", "c": draw(idx)})
        elif r < 19 and broker == "redis":
            if draw(st.booleans()):
                # shortly before / after the 2 s and 4 s execution timeouts of what was taken a moment ago
                ops.append({"op": "advance", "dt": draw(st.sampled_from([1.6, 1.9, 2.05, 3.9, 4.05]))})
            ops.append({"op": "maintenance"})
        else:
            ops.append({"op": "consume", "c": draw(idx), "patience": 0.3})
    # drain: every consumer consumes until dry so that duplicates sitting in a prefetch queue surface
    for _ in range(2):
        for c in range(ncons):
            ops.append({"op": "launch", "c": c})
        ops.append({"op": "collect", "patience": 0.8})
    if draw(st.integers(0, 2)) == 0:
        # a holder replaces its message (requeue), takes what comes next and acknowledges it
        burst(1)
        k = draw(st.integers(0, ncons - 1))
        ops += [{"op": "consume", "c": k, "patience": 0.5}, {"op": "requeue", "c": k, "i": 0},
                {"op": "consume", "c": k, "patience": 0.5}, {"op": "ack", "c": k, "i": 0}]
    if broker != "mem" and (draw(st.booleans()) or broker == "amqp"):
        # epilogue: every process goes away without cleanup (connections lost), later a new one drains the queue.  Whatever was
        # acknowledged must not come back; a delivery left unsettled behind the client's back ("ghost") surfaces here
        for c in range(3):
            ops.append({"op": "kill", "c": c})
        if broker == "redis":
            ops.append({"op": "advance", "dt": 2 * 86400 + 10.0})
            ops.append({"op": "maintenance"})
        ops.append({"op": "start", "q": "qa", "client": "z9", "topics": None, "category": "NORMAL", "max_unacked": None})
        for _ in range(nmsg + 2):
            ops.append({"op": "consume", "c": 0, "patience": 0.6})
            ops.append({"op": "ack", "c": 0, "i": 0})
    case = {"broker": broker, "seed": draw(st.integers(0, 2**16)), "ops": ops}
    if draw(st.integers(0, 3)) == 0:
        names.rename_history(case, draw(st.sampled_from(names.STYLES)))  # legal but unusual queue / topic / message names
    if draw(st.integers(0, 5)) == 0:
        case["log"] = "DEBUG"  # host application logging at DEBUG: the library's log lines are all formatted
    if draw(st.integers(0, 5)) == 0:
        case["tz"] = draw(st.sampled_from(vclock.zones(10)))
    if broker != "mem":
        lat = st.lists(st.sampled_from([0.0, 0.001, 0.002, 0.005]), max_size=30)
        case["lat"] = {"p0": [], "c0": draw(lat), "c1": draw(lat), "c2": draw(lat)}
    return case


def run_holders(case: dict) -> Outcome:
    out = Outcome()
    try:
        w = brokerops.run(case, max_steps=250_000)
    except vclock.StepLimit as e:
        if "virtual time" in str(e):
            out.inconclusive = True
        else:
            # these histories need a few thousand loop steps; hundreds of thousands mean a broker call spins without progress
            out.v("livelock", f"history did not finish within the loop-step watchdog ({e}): a broker call spins without making progress",
                  broker=case["broker"])
        return out
    except vclock.Deadlock as e:
        out.inconclusive = True
        out.info["watchdog"] = str(e)
        return out
    seen = set()
    for kind, msg, facts in w.viol:
        if kind in OWNED and kind not in seen:
            seen.add(kind)
            out.v(kind, msg, **facts)
    concurrent = 0
    for i, e in enumerate(w.events):
        if e["op"]["op"] == "collect" and not e.get("skipped"):
            n_launch = 0
            j = i - 1
            while j >= 0 and w.events[j]["op"]["op"] == "launch":
                n_launch += not w.events[j].get("skipped")
                j -= 1
            if n_launch >= 2:
                concurrent += 1
    handed = sum(len(m.handovers) for m in w.msgs.values())
    out.nontrivial = concurrent > 0 and handed > 0
    out.cls("broker-" + case["broker"], "concurrent-consumes" if concurrent else "no-concurrency",
            "killed-client" if w.dead_clients else "no-kill", "maintenance" if w.n_maint else "no-maintenance")
    if any(len(m.handovers) > 1 for m in w.msgs.values()):
        out.cls("redelivery-after-return")
    return out


# ----------------------------------------------------------------------------- several workers, one queue


@st.composite
def workers_case(draw, broker):
    return {"broker": broker, "seed": draw(st.integers(0, 2**16)), "workers": draw(st.integers(2, 3)),
            "jobs": [{"id": f"j{i}", "at": draw(st.one_of(st.just(0.0), st.integers(0, 2000).map(lambda ms: ms / 1000))),
                      "dur": draw(st.sampled_from([0.0, 0.0, 0.05, 0.3, 1.0]))} for i in range(draw(st.integers(1, 10)))],
            "tasks_limit": draw(st.sampled_from([1, 2, 1000])),
            "lat": {f"w{i}": draw(st.lists(st.sampled_from([0.0, 0.001, 0.002, 0.005]), max_size=30)) for i in range(3)}}


async def _workers(loop, case, out: Outcome):
    import signal

    from repid import Job, MessageDependency, Queue, Router, Worker
    from repid import BasicConverter

    reset_globals()
    env = Env(case["broker"], loop, case["seed"])
    runs: dict[str, list] = {}
    conns = []
    workers = []
    for i in range(case["workers"]):
        conn = env.connection(f"w{i}", case["lat"].get(f"w{i}") if case["broker"] != "mem" else None, buckets=False)
        await conn.connect()
        conns.append(conn)
        router = Router()
        durs = {j["id"]: j["dur"] for j in case["jobs"]}

        def make(i=i):
            async def work(m: MessageDependency) -> int:
                runs.setdefault(m.key.id_, []).append((f"w{i}", loop.time()))
                d = durs.get(m.key.id_, 0.0)
                if d:
                    await asyncio.sleep(d)
                return 1
            return work

        router.actor(make(), name="work", queue="qw", converter=BasicConverter)
        workers.append(Worker(routers=[router], tasks_limit=case["tasks_limit"], graceful_shutdown_time=5.0, _connection=conn))
    await Queue("qw", _connection=conns[0]).declare()

    async def produce(j):
        await asyncio.sleep(j["at"])
        await Job("work", queue="qw", id_=j["id"], _connection=conns[0]).enqueue()

    prods = [asyncio.ensure_future(produce(j)) for j in case["jobs"]]
    handlers = []
    tasks = []
    for w in workers:
        tasks.append(asyncio.ensure_future(w.run()))
        # each worker registers its own handler on the loop; keep them apart
        for _ in range(200):
            await asyncio.sleep(0)
            if loop.sig_handlers.get(int(signal.SIGTERM)):
                break
        h = loop.sig_handlers.pop(int(signal.SIGTERM), None)
        loop.sig_handlers.pop(int(signal.SIGINT), None)
        handlers.append(h)
    horizon = 12.0 + sum(j["dur"] for j in case["jobs"])
    while loop.time() < horizon:
        await asyncio.sleep(0.1)
        if all(p.done() for p in prods) and len(runs) >= len(case["jobs"]):
            pr = env.probe()
            if not any(p.kind in ("waiting", "held") for v in pr.values() for p in v):
                break
    for h in handlers:
        if h is not None:
            try:
                h[0](*h[1])
            except ValueError:
                pass
    done, pending = await asyncio.wait(tasks, timeout=40.0)
    for t in pending:
        out.v("worker-stuck", "a worker did not return after the stop signal")
        t.cancel()
    for t in done:
        if not t.cancelled() and t.exception() is not None:
            out.v("worker-died", f"Worker.run() raised {t.exception()!r}")
    await asyncio.gather(*prods, return_exceptions=True)
    await asyncio.sleep(0.5)
    for j in case["jobs"]:
        r = runs.get(j["id"], [])
        if len(r) > 1:
            out.v("executed-twice", f"job {j['id']} (succeeding actor) was executed {len(r)} times: {r}", broker=case["broker"])
        elif len(r) == 0:
            out.v("never-executed", f"job {j['id']} was never executed within {horizon:.1f}s although {case['workers']} workers served its "
                  f"queue; places {[p.short() for p in env.probe().get(j['id'], [])]}", broker=case["broker"])
    out.nontrivial = len(case["jobs"]) >= 2 and len(runs) == len(case["jobs"]) and len({w for r in runs.values() for w, _ in r}) >= 1
    out.cls("broker-" + case["broker"], f"workers-{case['workers']}",
            "several-workers-executed" if len({w for r in runs.values() for w, _ in r}) >= 2 else "one-worker-executed")


def run_workers(case: dict) -> Outcome:
    out = Outcome()
    try:
        vclock.run(lambda loop: _workers(loop, case, out), max_steps=1_500_000)
    except (vclock.StepLimit, vclock.Deadlock) as e:
        out.inconclusive = True
        out.info["watchdog"] = str(e)
    return out


# ----------------------------------------------------------------------------- bulk: hundreds of messages, several consumers


@st.composite
def bulk_case(draw, broker):
    """A backlog of 100-300 messages, most of them delayed with pairwise distinct due times that have (nearly) all passed, taken by
    2-3 consumers at once.  Sizes the small histories never reach (batching thresholds, paging, long promotion loops)."""
    n = draw(st.sampled_from([100, 101, 150, 250, 300]))
    case = {"broker": broker, "seed": draw(st.integers(0, 2**16)), "n": n, "consumers": draw(st.integers(2, 3)),
            "delayed_frac": draw(st.sampled_from([1.0, 1.0, 0.7, 0.0])), "spread_ms": draw(st.sampled_from([1, 3, 10])),
            "prios": draw(st.sampled_from([[5], [5], [0, 5, 9]])), "hold": draw(st.sampled_from([0.0, 0.0, 0.002])),
            "same_client": draw(st.booleans())}
    if broker != "mem":
        case["lat"] = {f"c{i}": draw(st.lists(st.sampled_from([0.0, 0.001, 0.002]), max_size=10)) for i in range(3)}
    return case


async def _bulk(loop, case, out: Outcome):
    from datetime import timedelta

    from repid import MessageCategory
    from repid.data._key import RoutingKey
    from repid.data._parameters import DelayProperties, Parameters

    reset_globals()
    env = Env(case["broker"], loop, case["seed"])
    prod = env.connection("p0", None, buckets=False)
    await prod.connect()
    b = prod.message_broker
    await b.queue_declare("qb")
    now = vclock.VDateTime.now()
    n = case["n"]
    n_delayed = int(n * case["delayed_frac"])
    for i in range(n):
        prm = Parameters()
        if i < n_delayed:
            # due times one `spread` apart, the last ones slightly in the future
            prm = Parameters(delay=DelayProperties(next_execution_time=now + timedelta(milliseconds=case["spread_ms"] * (i - n_delayed + 20))))
        await b.enqueue(RoutingKey(topic="t0", queue="qb", priority=case["prios"][i % len(case["prios"])], id_=f"m{i}"), "", prm)
    await asyncio.sleep(0.05)
    got: dict[str, list] = {}
    conns = []
    for ci in range(case["consumers"]):
        if case["broker"] == "mem" or (case["same_client"] and ci > 0):
            conns.append(conns[0] if conns else prod)
        else:
            c = env.connection(f"c{ci}", (case.get("lat") or {}).get(f"c{ci}"), buckets=False)
            await c.connect()
            conns.append(c)

    async def consumer(ci: int):
        mb = conns[ci].message_broker
        c = mb.get_consumer("qb", None, draw_prefetch[ci], MessageCategory.NORMAL)
        await c.start()
        try:
            while True:
                try:
                    key, _p, _q = await asyncio.wait_for(c.consume(), timeout=2.5)
                except asyncio.TimeoutError:
                    return
                got.setdefault(key.id_, []).append((ci, round(loop.time(), 6)))
                if case["hold"]:
                    await asyncio.sleep(case["hold"])
                await mb.ack(key)
        finally:
            await asyncio.shield(c.finish())

    draw_prefetch = [None, 1, 5][: case["consumers"]]
    await asyncio.gather(*[consumer(ci) for ci in range(case["consumers"])])
    await asyncio.sleep(0.3)
    twice = {i: v for i, v in got.items() if len(v) > 1}
    if twice:
        i, v = sorted(twice.items())[0]
        out.v("double-delivery", f"{len(twice)} of {n} messages were handed out more than once although every hand-over was acknowledged, "
              f"e.g. {i}: (consumer, time) {v[:3]}", broker=case["broker"], bulk=True)
    missing = [f"m{i}" for i in range(n) if f"m{i}" not in got]
    if missing:
        pr = env.probe()
        out.v("never-delivered", f"{len(missing)} of {n} messages were not delivered although {case['consumers']} consumers polled until "
              f"the queue stayed empty for 2.5 s, e.g. {missing[0]}: {[p.short() for p in pr.get(missing[0], [])]}", broker=case["broker"], bulk=True)
    left = {i: v for i, v in env.probe().items() if v}
    if left and not missing:
        i = sorted(left)[0]
        out.v("acked-still-present", f"{len(left)} acknowledged messages are still somewhere, e.g. {i}: {[p.short() for p in left[i]]}",
              broker=case["broker"], bulk=True)
    out.nontrivial = len({ci for v in got.values() for ci, _ in v}) >= 2
    out.cls("broker-" + case["broker"], f"n-{n}", f"consumers-{case['consumers']}", "delayed" if n_delayed else "immediate")


def run_bulk(case: dict) -> Outcome:
    out = Outcome()
    try:
        vclock.run(lambda loop: _bulk(loop, case, out), max_steps=3_000_000)
    except (vclock.StepLimit, vclock.Deadlock) as e:
        out.inconclusive = True
        out.info["watchdog"] = str(e)
    return out


# ----------------------------------------------------------------------------- several workers, one of them stopped hard


@st.composite
def workers_stop_case(draw, broker):
    """Three workers on one queue; jobs fail once and succeed on the (immediate) retry, results are stored through a slow bucket
    broker; one worker is stopped with no graceful period at a generated instant.  Whatever that worker was doing - running the
    actor, reporting, storing the result - no job may then be in two hands at once or succeed twice."""
    return {"broker": broker, "seed": draw(st.integers(0, 2**16)),
            "jobs": [{"id": f"j{i}", "dur1": draw(st.sampled_from([0.0, 0.02, 0.1])), "dur2": draw(st.sampled_from([0.2, 0.4, 0.6])),
                      "at": draw(st.integers(0, 400)) / 1000} for i in range(draw(st.integers(1, 5)))],
            "stop_at": draw(st.integers(1, 1500)) / 1000, "store_lat": draw(st.sampled_from([0.02, 0.05, 0.1])),
            "tasks_limit": draw(st.sampled_from([1, 2, 1000])),
            "lat": {f"w{i}": draw(st.lists(st.sampled_from([0.0, 0.001, 0.002]), max_size=20)) for i in range(3)}}


async def _workers_stop(loop, case, out: Outcome):
    import signal
    from datetime import timedelta

    from repid import BasicConverter, Connection, InMemoryBucketBroker, Job, MessageDependency, Queue, Router, Worker

    reset_globals()
    env = Env(case["broker"], loop, case["seed"])
    spec = {j["id"]: j for j in case["jobs"]}
    execs: dict[str, list] = {}

    class SlowResults(InMemoryBucketBroker):
        async def store_bucket(self, id_, payload):  # type: ignore[override]
            await asyncio.sleep(case["store_lat"])
            return await super().store_bucket(id_, payload)

    workers, conns = [], []
    shared: dict = {}
    for i in range(3):
        kw = {}
        if case["broker"] == "redis":
            kw["bucket_lat"] = [case["store_lat"] / 2] * 400
        lat = case["lat"].get(f"w{i}") if case["broker"] != "mem" else None
        if case["broker"] == "redis":
            conn = env.connection(f"w{i}", lat, buckets=True, **kw)
        else:
            base = env.connection(f"w{i}", lat, buckets=False)
            shared.setdefault("results", SlowResults(use_result_bucket=True))
            conn = Connection(base.message_broker, InMemoryBucketBroker(), shared["results"])
        await conn.connect()
        conns.append(conn)
        router = Router()

        def make(i=i):
            async def work(m: MessageDependency) -> int:
                rec = {"w": f"w{i}", "t0": loop.time(), "t1": None, "end": "running", "tried": m.parameters.retries.already_tried}
                execs.setdefault(m.key.id_, []).append(rec)
                j = spec[m.key.id_]
                try:
                    if rec["tried"] == 0:
                        if j["dur1"]:
                            await asyncio.sleep(j["dur1"])
                        rec["end"] = "failed"
                        raise ValueError("first attempt fails")
                    await asyncio.sleep(j["dur2"])
                    rec["end"] = "succeeded"
                    return 1
                except asyncio.CancelledError:
                    rec["end"] = "cancelled"
                    raise
                finally:
                    rec["t1"] = loop.time()
            return work

        router.actor(make(), name="work", queue="qw", converter=BasicConverter, retry_policy=lambda n: timedelta(0))
        workers.append(Worker(routers=[router], tasks_limit=case["tasks_limit"], graceful_shutdown_time=0.0 if i == 0 else 5.0, _connection=conn))
    await Queue("qw", _connection=conns[1]).declare()

    async def produce(j):
        await asyncio.sleep(j["at"])
        await Job("work", queue="qw", id_=j["id"], retries=1, store_result=True, _connection=conns[1]).enqueue()

    prods = [asyncio.ensure_future(produce(j)) for j in case["jobs"]]
    handlers, tasks = [], []
    for w in workers:
        tasks.append(asyncio.ensure_future(w.run()))
        for _ in range(200):
            await asyncio.sleep(0)
            if loop.sig_handlers.get(int(signal.SIGTERM)):
                break
        handlers.append(loop.sig_handlers.pop(int(signal.SIGTERM), None))
        loop.sig_handlers.pop(int(signal.SIGINT), None)

    def fire(h):
        if h is not None:
            try:
                h[0](*h[1])
            except ValueError:
                pass

    loop.call_later(max(0.0, case["stop_at"] - loop.time()), fire, handlers[0])
    horizon = 10.0
    while loop.time() < horizon:
        await asyncio.sleep(0.1)
        if all(p.done() for p in prods) and all(any(r["end"] == "succeeded" for r in execs.get(j["id"], [])) for j in case["jobs"]):
            break
    await asyncio.sleep(0.8)
    for h in handlers[1:]:
        fire(h)
    done, pending = await asyncio.wait(tasks, timeout=40.0)
    for t in pending:
        out.v("worker-stuck", "a worker did not return after the stop signal")
        t.cancel()
    await asyncio.gather(*prods, return_exceptions=True)
    await asyncio.sleep(0.3)
    for j in case["jobs"]:
        rs = execs.get(j["id"], [])
        wins = [r for r in rs if r["end"] == "succeeded"]
        if len(wins) > 1:
            out.v("executed-twice", f"job {j['id']} succeeded {len(wins)} times: {[(r['w'], round(r['t0'], 3), round(r['t1'] or -1, 3)) for r in rs]} "
                  f"(worker w0 was stopped hard at {case['stop_at']})", broker=case["broker"], hard_stop=True)
        for a in rs:
            for b in rs:
                if a is not b and a["t0"] < b["t0"] and (a["t1"] is None or b["t0"] < a["t1"] - 1e-9):
                    out.v("double-delivery", f"job {j['id']} was being executed by {a['w']} (from {a['t0']:.3f}) when {b['w']} started it at "
                          f"{b['t0']:.3f} (worker w0 stopped hard at {case['stop_at']})", broker=case["broker"], hard_stop=True)
                    break
            else:
                continue
            break
    out.nontrivial = any(r["w"] == "w0" for rs in execs.values() for r in rs)
    out.info["executions"] = {k: [(r["w"], r["tried"], r["end"]) for r in v] for k, v in execs.items()}
    out.cls("broker-" + case["broker"], "w0-took-part" if out.nontrivial else "w0-idle")


def run_workers_stop(case: dict) -> Outcome:
    out = Outcome()
    try:
        vclock.run(lambda loop: _workers_stop(loop, case, out), max_steps=1_500_000, jitter_seed=case["seed"] + 1)
    except (vclock.StepLimit, vclock.Deadlock) as e:
        out.inconclusive = True
        out.info["watchdog"] = str(e)
    return out


def _h(b):
    return lambda: holders_case(b)


def _w(b):
    return lambda: workers_case(b)


# ----------------------------------------------------------------------------- hand-back at the message limit (several queues)


def run_limit_handback(case: dict) -> Outcome:
    """A worker over several queues reaches its message limit while messages of other queues are in its hands: they are handed back.
    Afterwards every message it did not finish is in its queue exactly once - a second entry is a second delivery waiting to happen
    (two consumers would hold it at a time).  Workload generator shared with C03 `limit-multi`."""
    import signal

    out = Outcome()
    info: dict = {}

    def hook(trace, worker):
        loop = trace.env.loop

        def fire():
            info["sent"] = loop.send_signal(signal.SIGTERM)
            if info["sent"]:
                trace.stop_requested_at = loop.time()
                trace.extra["stop_injected"] = True

        if case.get("signal_at") is not None:
            loop.call_later(case["signal_at"], fire)

    try:
        tr = scenario.run_case({k: v for k, v in case.items() if k != "signal_at"}, settled=lambda t: False, hook=hook)
    except (vclock.StepLimit, vclock.Deadlock) as e:
        out.inconclusive = True
        out.info["watchdog"] = str(e)
        return out
    handed_back = [e for e in tr.spy.events if e.op == "reject"]
    for j in case["jobs"]:
        places = tr.final.get(j["id"], [])
        live = [p for p in places if p.kind in ("waiting", "delayed", "held")]
        if len(live) > 1:
            out.v("duplicated", f"message {j['id']} is in {[p.short() for p in places]} after the worker returned (hand-backs: "
                  f"{[(getattr(e.key, 'id_', None), e.caller) for e in handed_back][:6]}): it will be handed out twice", broker=case["broker"])
            break
    out.nontrivial = not tr.horizon_hit and bool(handed_back)
    out.cls("broker-" + case["broker"], "hand-back" if handed_back else "no-hand-back")
    return out


def _limit_handback_case():
    from harness.checks import c03

    return c03.limit_multi_case()


CHECK = Check(
    pid="C14",
    level="exploration",
    rule=(
        "Stateful histories on one queue with 2-4 NORMAL consumers (same broker instance, and separate clients = separate processes on "
        "the Redis/AMQP models) and generated per-round-trip latencies (0,1,2,5 ms): enqueue bursts, consume() launched on several "
        "consumers concurrently then collected, ack/reject/requeue by the holder, finish, advance, client kill (Redis/AMQP), Redis "
        "maintenance; every history ends with all consumers consuming until dry so duplicates in prefetch queues surface. Oracle: holder "
        "map from hand-over / return events - a hand-over of id x while another consumer still holds x (no reject, requeue, "
        "holder-shutdown return or post-crash timeout in between) is a violation; no id in two places. Worker level: 2-3 workers on one "
        "queue, succeeding actors: every job executed exactly once. bulk-*: a backlog of 100-300 (mostly delayed, distinct due times) "
        "messages drained by 2-3 concurrent consumers that acknowledge everything: each message handed out exactly once. Non-trivial = >=2 consume calls in flight at once and a hand-over."
    ),
    assumptions=["virtual clock; Redis and RabbitMQ are in-process server models; interleavings = coroutine interleavings permuted by generated latencies"],
    subchecks=[
        SubCheck("holders-mem", _h("mem"), run_holders, quick=80, thorough=2500),
        SubCheck("holders-redis", _h("redis"), run_holders, quick=80, thorough=2500),
        SubCheck("holders-amqp", _h("amqp"), run_holders, quick=80, thorough=2500),
        SubCheck("bulk-mem", lambda: bulk_case("mem"), run_bulk, quick=4, thorough=120),
        SubCheck("bulk-redis", lambda: bulk_case("redis"), run_bulk, quick=3, thorough=100),
        SubCheck("bulk-amqp", lambda: bulk_case("amqp"), run_bulk, quick=3, thorough=100),
        SubCheck("workers-stop-mem", lambda: workers_stop_case("mem"), run_workers_stop, quick=25, thorough=800),
        SubCheck("workers-stop-redis", lambda: workers_stop_case("redis"), run_workers_stop, quick=15, thorough=500),
        SubCheck("workers-stop-amqp", lambda: workers_stop_case("amqp"), run_workers_stop, quick=15, thorough=500),
        SubCheck("limit-handback", _limit_handback_case, run_limit_handback, quick=40, thorough=1500),
        SubCheck("workers-mem", _w("mem"), run_workers, quick=8, thorough=300),
        SubCheck("workers-redis", _w("redis"), run_workers, quick=15, thorough=500),
        SubCheck("workers-amqp", _w("amqp"), run_workers, quick=15, thorough=500),
    ],
)
