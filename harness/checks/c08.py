"""C08 — Arguments bind to the actor signature identically under every converter."""
# NOTE: no `from __future__ import annotations`: generated actors carry real annotation objects.
import asyncio
import json
from typing import Annotated, Any, Optional  # noqa: F401  (used by generated source)

from hypothesis import strategies as st

from harness import vclock
from harness.brokers import Env, reset_globals
from harness.core import Check, Outcome, SubCheck

NAMES = ["a", "b", "c", "d", "e", "x1", "val_2", "Name", "q", "w"]
EXTRA_NAMES = ["zz", "extra1", "more", "y9"]
ANN = {
    None: st.one_of(st.none(), st.integers(-5, 5), st.text("ab", max_size=3), st.lists(st.integers(0, 3), max_size=2)),
    "int": st.integers(-1000, 1000),
    "str": st.text("abc é", max_size=5),
    "float": st.floats(-100, 100, allow_nan=False, allow_infinity=False).map(lambda f: round(f, 2) + 0.5),
    "bool": st.booleans(),
    "list[int]": st.lists(st.integers(-9, 9), max_size=3),
    "dict[str, int]": st.dictionaries(st.text("kv", min_size=1, max_size=2), st.integers(0, 9), max_size=2),
    "Optional[int]": st.one_of(st.none(), st.integers(-9, 9)),
}


@st.composite
def signature(draw, allow_catch_all=True, allow_deps=True, allow_field=False):
    n = draw(st.integers(0, 5))
    names = draw(st.lists(st.sampled_from(NAMES), min_size=n, max_size=n, unique=True))
    var_args = allow_catch_all and draw(st.integers(0, 3)) == 0
    var_kwargs = allow_catch_all and draw(st.integers(0, 2)) == 0
    params = []
    for nm in names:
        ann = draw(st.sampled_from(list(ANN)))
        kind = draw(st.sampled_from(["po", "pk", "pk", "ko"]))
        has_default = draw(st.booleans())
        p = {"name": nm, "kind": kind, "ann": ann, "has_default": has_default}
        if has_default:
            p["default"] = draw(ANN[ann])
            if ann and draw(st.integers(0, 4)) == 0:
                # a declared default need not satisfy the annotation (`note: str = None`, `tags: list = ()`): when the payload
                # omits the parameter the actor receives the default exactly as declared, under every converter
                p["default"] = draw(st.sampled_from([None, None, (), "", 0]))
            if allow_field and ann is not None and draw(st.integers(0, 2)) == 0:
                # the default declared the pydantic way: Field(default=...) / Field(default_factory=...)
                p["field"] = "factory" if isinstance(p["default"], (list, dict)) and draw(st.booleans()) else "default"
        params.append(p)
    order = {"po": 0, "pk": 1, "ko": 2}
    params.sort(key=lambda p: order[p["kind"]])
    # positional parameters: no non-default after a default
    seen_default = False
    for p in params:
        if p["kind"] in ("po", "pk"):
            if seen_default and not p["has_default"]:
                p["has_default"] = True
                p["default"] = draw(ANN[p["ann"]])
            seen_default = seen_default or p["has_default"]
    deps = []
    if allow_deps:
        for i in range(draw(st.integers(0, 2))):
            deps.append({"name": f"dep{i}", "dep": draw(st.sampled_from(["msg", "provider"])),
                         "where": draw(st.sampled_from(["pk", "ko"]))})
    return {"params": params, "var_args": var_args, "var_kwargs": var_kwargs, "deps": deps}


def source(sig: dict, fname: str = "actor", ret_ann: Optional[str] = None) -> str:
    def fmt(p):
        s = p["name"]
        if p["ann"]:
            s += f": {p['ann']}"
        if p["has_default"] and p.get("field") == "factory":
            s += f" = Field(default_factory=lambda: {p['default']!r})"
        elif p["has_default"] and p.get("field"):
            s += f" = Field(default={p['default']!r})"
        elif p["has_default"]:
            s += f" = {p['default']!r}" if p["ann"] else f"={p['default']!r}"
        return s

    def fmt_dep(d):
        if d["dep"] == "msg":
            return f"{d['name']}: MessageDependency"
        return f"{d['name']}: Annotated[str, Depends(provider)]"

    po = [fmt(p) for p in sig["params"] if p["kind"] == "po"]
    pk_nodef = [fmt(p) for p in sig["params"] if p["kind"] == "pk" and not p["has_default"]]
    pk_def = [fmt(p) for p in sig["params"] if p["kind"] == "pk" and p["has_default"]]
    ko = [fmt(p) for p in sig["params"] if p["kind"] == "ko"]
    any_po_default = any(p["kind"] == "po" and p["has_default"] for p in sig["params"])
    dep_pk = [fmt_dep(d) for d in sig["deps"] if d["where"] == "pk" and not sig["var_args"] and not any_po_default and not pk_def]
    dep_ko = [fmt_dep(d) for d in sig["deps"] if fmt_dep(d) not in dep_pk]
    parts = []
    if po:
        parts += po + ["/"]
    parts += pk_nodef + dep_pk + pk_def
    if sig["var_args"]:
        parts.append("*args")
    elif ko or dep_ko:
        parts.append("*")
    parts += ko + dep_ko
    if sig["var_kwargs"]:
        parts.append("**kwargs")
    names = [p["name"] for p in sig["params"]] + [d["name"] for d in sig["deps"]]
    rec = ", ".join(f"{n!r}: {n}" for n in names)
    body = f"    REC.append({{'named': {{{rec}}}, 'args': {'list(args)' if sig['var_args'] else 'None'}, " \
           f"'kwargs': {'dict(kwargs)' if sig['var_kwargs'] else 'None'}}})\n    return RET[0]\n"
    ret = f" -> {ret_ann}" if ret_ann else ""
    return f"async def {fname}({', '.join(parts)}){ret}:\n{body}"


def compile_actor(sig: dict, rec: list, ret: list, ret_ann: Optional[str] = None):
    from repid import Depends, MessageDependency

    async def provider() -> str:
        return "provided"

    from pydantic import Field

    ns: dict = {"MessageDependency": MessageDependency, "Depends": Depends, "Annotated": Annotated, "Optional": Optional, "Field": Field,
                "Report": _report_model(),
                "REC": rec, "RET": ret, "provider": provider}
    src = source(sig, ret_ann=ret_ann)
    exec(compile(src, "<generated-actor>", "exec"), ns)  # noqa: S102
    return ns["actor"], src


@st.composite
def payload_for(draw, sig: dict):
    """None (job without arguments) or a dict: exact / some missing / extras added; values of the annotated types."""
    mode = draw(st.sampled_from(["empty", "exact", "exact", "missing", "extras", "missing+extras"]))
    if mode == "empty":
        return None, mode
    pl = {}
    for p in sig["params"]:
        if "missing" in mode and draw(st.booleans()):
            continue
        if p["has_default"] and draw(st.integers(0, 3)) == 0:
            continue
        pl[p["name"]] = draw(ANN[p["ann"]])
    if "extras" in mode:
        for nm in draw(st.lists(st.sampled_from(EXTRA_NAMES), min_size=1, max_size=3, unique=True)):
            pl[nm] = draw(st.one_of(st.integers(0, 99), st.text("xy", max_size=3)))
    # an entry named like a dependency parameter: the dependency must never be replaced by it
    if sig.get("deps") and draw(st.integers(0, 2)) == 0:
        pl[draw(st.sampled_from([d["name"] for d in sig["deps"]]))] = "spoofed"
    keys = list(pl)
    perm = draw(st.permutations(keys))
    return {k: pl[k] for k in perm}, mode


@st.composite
def bind_case(draw, converter):
    catch = converter == "basic"
    sig = draw(signature(allow_catch_all=catch, allow_field=(converter == "pydantic")))
    payload, mode = draw(payload_for(sig))
    return {"converter": converter, "sig": sig, "payload": payload, "mode": mode}


def expected_binding(sig: dict, payload: Optional[dict]):
    p = dict(payload or {})
    exp = {}
    for prm in sig["params"]:
        if prm["name"] in p:
            exp[prm["name"]] = p.pop(prm["name"])
        elif prm["has_default"]:
            exp[prm["name"]] = prm["default"]
        else:
            return None, None
    return exp, p


def compare(out: Outcome, sig: dict, payload: Optional[dict], rec: list, failed: bool, tag: str, conv: str) -> None:
    exp, extras = expected_binding(sig, payload)
    if exp is None:
        if rec:
            out.v("ran-with-missing-argument", f"{tag}: payload {payload!r} lacks a parameter without default, yet the actor body ran "
                  f"with {rec[0]['named']!r}", converter=conv)
        elif not failed:
            out.v("missing-argument-not-failed", f"{tag}: payload {payload!r} lacks a required parameter but the execution did not fail",
                  converter=conv)
        return
    collide = [k for k in extras if k in {d["name"] for d in sig["deps"]}]
    if collide and (failed or not rec):
        return  # a payload entry colliding with a dependency parameter may fail the execution (it must not replace the dependency)
    if failed or not rec:
        out.v("bindable-call-failed", f"{tag}: payload {payload!r} is bindable ({exp!r}, extras {extras!r}) but the execution failed",
              converter=conv, has_extras=bool(extras), var_args=sig["var_args"], var_kwargs=sig["var_kwargs"],
              empty_payload=payload is None)
        return
    r = rec[0]
    named = {k: v for k, v in r["named"].items() if not k.startswith("dep")}
    if named != exp:
        out.v("wrong-binding", f"{tag}: payload {payload!r}: parameters received {named!r}, expected {exp!r}", converter=conv)
    got_args = r["args"] or []
    got_kwargs = r["kwargs"] or {}
    def placed(extras: dict) -> bool:
        if sig["var_kwargs"] and sig["var_args"]:
            return (got_kwargs == extras and got_args == []) or (got_kwargs == {} and _ms(got_args) == _ms(extras.values()))
        if sig["var_kwargs"]:
            return got_kwargs == extras
        if sig["var_args"]:
            return _ms(got_args) == _ms(extras.values())
        return True

    ok = placed(extras) or (bool(collide) and placed({k: v for k, v in extras.items() if k not in collide}))
    if not ok:
        out.v("extras-misplaced", f"{tag}: payload {payload!r}: extras {extras!r} must go only to the catch-all; got *args={got_args!r} "
              f"**kwargs={got_kwargs!r}", converter=conv)
    for d in sig["deps"]:
        v = r["named"].get(d["name"])
        if d["dep"] == "provider" and v not in ("provided", "<dep>"):
            out.v("dependency-value", f"{tag}: dependency parameter {d['name']} received {v!r}")


def _ms(values) -> list:
    return sorted(json.dumps(v, sort_keys=True) for v in values)


def run_direct(case: dict) -> Outcome:
    from repid import BasicConverter, PydanticConverter

    out = Outcome()
    sig, payload = case["sig"], case["payload"]
    rec: list = []
    ret = [None]
    fn, src = compile_actor(sig, rec, ret)
    cls = {"basic": BasicConverter, "pydantic": PydanticConverter}[case["converter"]]
    tag = f"[{case['converter']}] {src.splitlines()[0]}"
    try:
        conv = cls(fn)
    except Exception as e:  # noqa: BLE001
        out.v("declaration-rejected", f"{tag}: converter rejected a supported signature: {type(e).__name__}: {e}")
        return out
    data = "" if payload is None else json.dumps(payload)
    failed = False
    try:
        args, kwargs = conv.convert_inputs(data)
        deps = {name: "<dep>" for name in conv.dependencies}
        asyncio.new_event_loop().run_until_complete(fn(*args, **kwargs, **deps))
    except Exception:  # noqa: BLE001
        failed = True
    if set(conv.dependencies) != {d["name"] for d in sig["deps"]}:
        out.v("dependency-split", f"{tag}: converter.dependencies={sorted(conv.dependencies)}, declared {[d['name'] for d in sig['deps']]}")
    compare(out, sig, payload, rec, failed, tag, case["converter"])
    # a second execution with the very same payload must bind the same values even if the first execution mutated its
    # (mutable) arguments in place - nothing may be shared between executions
    if not failed and rec:
        first = rec[0]
        # (only values that came from the payload: a mutable *default* is shared between calls by Python itself)
        from_payload = [v for k, v in first["named"].items() if payload and k in payload]
        for v in from_payload + list(first["args"] or []) + list((first["kwargs"] or {}).values()):
            if isinstance(v, list):
                v.append("mutated-by-first-execution")
            elif isinstance(v, dict):
                v["mutated-by-first-execution"] = True
        rec2: list = []
        ns_fn, _ = compile_actor(sig, rec2, ret)
        try:
            a2, k2 = conv.convert_inputs(data)
            asyncio.new_event_loop().run_until_complete(ns_fn(*a2, **k2, **{name: "<dep>" for name in conv.dependencies}))
        except Exception:  # noqa: BLE001
            rec2 = []
        if rec2:
            exp, _extras = expected_binding(sig, payload)
            named2 = {k: v for k, v in rec2[0]["named"].items() if not k.startswith("dep")}
            if exp is not None and any(named2.get(k) != exp[k] for k in exp if payload and k in payload):
                out.v("state-shared-between-executions", f"{tag}: payload {payload!r}: a second execution received {named2!r} after the "
                      f"first one mutated its arguments; expected {exp!r}", converter=case["converter"])
    kinds = {p["kind"] for p in sig["params"]}
    out.nontrivial = len(kinds) >= 2 and case["mode"] != "exact"
    out.cls("conv-" + case["converter"], "payload-" + case["mode"], "catch-all" if sig["var_args"] or sig["var_kwargs"] else "no-catch-all",
            "with-deps" if sig["deps"] else "no-deps", f"kinds-{len(kinds)}")
    return out


# ----------------------------------------------------------------------------- differential basic vs pydantic (+ default selection)


@st.composite
def diff_case(draw):
    sig = draw(signature(allow_catch_all=False))
    payload, mode = draw(payload_for(sig))
    return {"sig": sig, "payload": payload, "mode": mode}


def run_diff(case: dict) -> Outcome:
    from repid import BasicConverter, Config, DefaultConverter, PydanticConverter, Router
    from repid.router import RouterDefaults

    out = Outcome()
    sig, payload = case["sig"], case["payload"]
    data = "" if payload is None else json.dumps(payload)
    results = {}
    Config.CONVERTER = DefaultConverter
    for name in ("basic", "pydantic", "default"):
        rec: list = []
        fn, src = compile_actor(sig, rec, [None])
        try:
            if name == "default":
                r = Router(defaults=RouterDefaults())
                r.actor(fn)
                conv = r.actors["actor"].converter
                if type(conv) is not PydanticConverter:
                    out.v("default-selection", f"default converter with pydantic 2 installed is {type(conv).__name__}")
            else:
                conv = {"basic": BasicConverter, "pydantic": PydanticConverter}[name](fn)
            args, kwargs = conv.convert_inputs(data)
            asyncio.new_event_loop().run_until_complete(fn(*args, **kwargs, **{n: "<dep>" for n in conv.dependencies}))
            results[name] = ("ok", rec[0]["named"] if rec else None)
        except Exception as e:  # noqa: BLE001
            results[name] = ("fail", type(e).__name__) if not rec else ("ok", rec[0]["named"])
    b, p, d = results["basic"], results["pydantic"], results["default"]
    tag = source(sig).splitlines()[0]
    if b[0] != p[0] or (b[0] == "ok" and b[1] != p[1]):
        out.v("converters-disagree", f"{tag} payload {payload!r}: basic -> {b}, pydantic -> {p}", basic=b[0], pydantic=p[0])
    if d != p:
        out.v("default-differs", f"{tag} payload {payload!r}: default -> {d}, pydantic -> {p}")
    out.nontrivial = case["mode"] != "exact" and len({x["kind"] for x in sig["params"]}) >= 2
    out.cls("payload-" + case["mode"], "both-" + b[0])
    return out


# ----------------------------------------------------------------------------- outputs

def _report_model():
    from pydantic import BaseModel

    class Report(BaseModel):
        count: int
        owner: Optional[str]  # required, may be None
        note: Optional[str] = "n/a"  # optional with a non-None default: an explicit None is not the default

    return Report


_REPORT = st.fixed_dictionaries({"count": st.integers(0, 9), "owner": st.one_of(st.none(), st.text("ab", max_size=3)),
                                 "note": st.one_of(st.none(), st.just("n/a"), st.text("xy", max_size=3))})

RET_ANN = {
    "Report": _REPORT,
    "list[Report]": st.lists(_REPORT, max_size=3),
    None: st.one_of(st.none(), st.integers(-5, 5), st.text("ab", max_size=3), st.lists(st.integers(0, 3), max_size=2),
                    st.dictionaries(st.text("k", min_size=1, max_size=2), st.integers(0, 3), max_size=2)),
    "int": st.integers(-1000, 1000), "str": st.text("abc é", max_size=5), "bool": st.booleans(),
    "float": st.floats(-100, 100, allow_nan=False, allow_infinity=False),
    "list[int]": st.lists(st.integers(-9, 9), max_size=3),
    "dict[str, int]": st.dictionaries(st.text("kv", min_size=1, max_size=2), st.integers(0, 9), max_size=2),
    "Optional[int]": st.one_of(st.none(), st.integers(-9, 9)),
}


@st.composite
def output_case(draw):
    ann = draw(st.sampled_from(list(RET_ANN)))
    return {"converter": draw(st.sampled_from(["basic", "pydantic"])), "ann": ann, "value": draw(RET_ANN[ann])}


def run_output(case: dict) -> Outcome:
    from repid import BasicConverter, PydanticConverter

    out = Outcome()
    fn, src = compile_actor({"params": [], "var_args": False, "var_kwargs": False, "deps": []}, [], [case["value"]], ret_ann=case["ann"])
    if case["ann"] in ("Report", "list[Report]"):
        # the actor returns model instances; what it returned, as JSON, is the generated dict (None fields included)
        Report = fn.__globals__["Report"]
        returned = Report(**case["value"]) if case["ann"] == "Report" else [Report(**v) for v in case["value"]]
        try:
            conv = {"basic": BasicConverter, "pydantic": PydanticConverter}[case["converter"]](fn)
            back = json.loads(conv.convert_outputs(returned))
        except Exception as e:  # noqa: BLE001
            if case["converter"] == "pydantic":
                out.v("output-raises", f"[pydantic] return annotation {case['ann']}, value {case['value']!r}: {type(e).__name__}: {e}")
            else:
                out.inconclusive = True  # (the basic converter is not required to encode models)
            return out
        if back != case["value"]:
            out.v("output-roundtrip", f"[{case['converter']}] return annotation {case['ann']}: the actor returned {case['value']!r}, the encoded "
                  f"result decodes to {back!r}")
        out.nontrivial = True
        out.cls("conv-" + case["converter"], f"ann-{case['ann']}")
        return out
    try:
        conv = {"basic": BasicConverter, "pydantic": PydanticConverter}[case["converter"]](fn)
    except Exception as e:  # noqa: BLE001
        out.v("declaration-rejected", f"[{case['converter']}] actor with return annotation {case['ann']} cannot be declared: "
              f"{type(e).__name__}: {e}")
        return out
    try:
        enc = conv.convert_outputs(case["value"])
        back = json.loads(enc)
    except Exception as e:  # noqa: BLE001
        out.v("output-raises", f"[{case['converter']}] return annotation {case['ann']}, value {case['value']!r}: {type(e).__name__}: {e}")
        return out
    if back != case["value"] or type(back) is not type(case["value"]) and not (isinstance(back, (int, float)) and isinstance(case["value"], (int, float))):
        out.v("output-roundtrip", f"[{case['converter']}] return annotation {case['ann']}: value {case['value']!r} encoded as {enc!r} "
              f"decodes to {back!r}")
    out.nontrivial = case["ann"] is not None
    out.cls("conv-" + case["converter"], f"ann-{case['ann']}")
    return out


# ----------------------------------------------------------------------------- through a worker


@st.composite
def worker_case(draw):
    conv = draw(st.sampled_from(["basic", "basic", "pydantic", "default"]))
    sig = draw(signature(allow_catch_all=(conv == "basic"), allow_field=(conv != "basic")))
    payload, mode = draw(payload_for(sig))
    return {"converter": conv, "sig": sig, "payload": payload, "mode": mode, "seed": draw(st.integers(0, 999))}


async def _worker(loop, case, out: Outcome):
    from repid import BasicConverter, Job, PydanticConverter, Queue, Router, Worker

    reset_globals()
    env = Env("mem", loop, case["seed"])
    conn = env.connection("c0")
    await conn.connect()
    rec: list = []
    fn, src = compile_actor(case["sig"], rec, ["done"])
    router = Router()
    kw = {}
    if case["converter"] != "default":
        kw["converter"] = {"basic": BasicConverter, "pydantic": PydanticConverter}[case["converter"]]
    router.actor(fn, name="actor", queue="qb", **kw)
    await Queue("qb", _connection=conn).declare()
    jkw = {"name": "actor", "queue": "qb", "id_": "j1", "_connection": conn}
    if case["payload"] is not None:
        jkw["args"] = case["payload"]
    await Job(**jkw).enqueue()
    w = Worker(routers=[router], messages_limit=1, handle_signals=[], _connection=conn)
    await asyncio.wait_for(w.run(), timeout=20.0)
    await asyncio.sleep(0.1)
    places = [p.kind for p in env.probe().get("j1", [])]
    failed = places == ["dead"]
    tag = f"[worker/{case['converter']}] {src.splitlines()[0]}"
    if places not in ([], ["dead"]):
        out.v("worker-disposition", f"{tag}: message ended in {places}")
    compare(out, case["sig"], case["payload"], rec, failed, tag, case["converter"])
    if rec:
        for d in case["sig"]["deps"]:
            v = rec[0]["named"].get(d["name"])
            if d["dep"] == "msg" and getattr(getattr(v, "key", None), "id_", None) != "j1":
                out.v("dependency-value", f"{tag}: message dependency parameter {d['name']} received {v!r}")


def run_worker(case: dict) -> Outcome:
    out = Outcome()
    try:
        vclock.run(lambda loop: _worker(loop, case, out), max_steps=200_000)
    except (vclock.StepLimit, vclock.Deadlock, asyncio.TimeoutError) as e:
        out.v("worker-hang", f"worker did not process the job: {e!r}")
    except ValueError as e:
        out.v("declaration-rejected", f"router.actor rejected a supported signature: {e}")
    kinds = {p["kind"] for p in case["sig"]["params"]}
    out.nontrivial = len(kinds) >= 2 and case["mode"] != "exact"
    out.cls("conv-" + case["converter"], "payload-" + case["mode"])
    return out


CHECK = Check(
    pid="C08",
    level="exploration",
    rule=(
        "Actor signatures generated as Python source and exec-ed (real CPython binding): 0-5 parameters over positional-only / "
        "positional-or-keyword / keyword-only, with or without defaults, optional *args / **kwargs (Basic only: the Pydantic converter "
        "documents them as unsupported), dependency parameters (MessageDependency, Annotated[..., Depends]) mixed in, annotations from "
        "{none,int,str,float,bool,list[int],dict[str,int],Optional[int]}; payloads empty / exact / missing keys / extra keys / both, key "
        "order permuted, values of the annotated types. Oracle: independent binder (payload entry of its name, else default; missing "
        "without default => execution fails and the body does not run; extras only in a catch-all or dropped) compared with what the "
        "function really receives, directly through convert_inputs and through a Worker; Basic vs Pydantic vs default selection "
        "differential; json.loads(convert_outputs(v)) == v for return values of the annotated type. Non-trivial = >=2 parameter kinds "
        "and a payload that is not exact."
    ),
    assumptions=["payload keys equal to dependency parameter names are not generated", "pydantic 2 is installed (default converter = PydanticConverter)"],
    subchecks=[
        SubCheck("direct-basic", lambda: bind_case("basic"), run_direct, quick=500, thorough=20000),
        SubCheck("direct-pydantic", lambda: bind_case("pydantic"), run_direct, quick=300, thorough=10000),
        SubCheck("differential", diff_case, run_diff, quick=200, thorough=8000),
        SubCheck("outputs", output_case, run_output, quick=200, thorough=8000),
        SubCheck("worker", worker_case, run_worker, quick=80, thorough=2500),
    ],
)
