"""C11 — A job reaches exactly the actor it names, only through that actor's queue."""
# NOTE: no `from __future__ import annotations` (actors carry real annotations)
import asyncio
from datetime import timedelta
import signal

from hypothesis import strategies as st

from harness import vclock
from harness.brokers import Env, reset_globals
from harness.core import Check, Outcome, SubCheck

NAMES = ["a", "ab", "a-b", "b"]  # prefix-related on purpose (Redis filters by "<topic>:" prefix)
QUEUES = ["q0", "q1", "q2"]


@st.composite
def routing_case(draw, broker):
    nrouters = draw(st.integers(1, 3))
    routers = []
    reg = 0
    for _ in range(nrouters):
        regs = []
        # the router's default queue (RouterDefaults.queue; "default" when the router is built without defaults)
        dq = draw(st.sampled_from([None, None, "default", "q1", "q2"]))
        for _ in range(draw(st.integers(1, 4))):
            r = {"name": draw(st.sampled_from(NAMES)), "queue": draw(st.sampled_from(QUEUES)), "reg": reg}
            if draw(st.integers(0, 3)) == 0:
                # registered without a queue: the router's default applies ("queue" holds the effective one)
                r["queue"], r["queue_given"], r["router_default"] = dq or "default", False, dq
            if draw(st.integers(0, 3)) == 0:
                r["name_given"] = False  # registered without a name: the function's __name__ (identifier-shaped names only)
                r["name"] = draw(st.sampled_from(["a", "ab", "b"]))
            regs.append(r)
            reg += 1
        for r in regs:
            r["router_default"] = dq
        routers.append(regs)
    nworkers = draw(st.integers(1, 2))
    workers = []
    for _ in range(nworkers):
        idx = draw(st.lists(st.integers(0, nrouters - 1), min_size=1, max_size=nrouters, unique=True))
        # how each router reaches the worker: handed to the constructor, included afterwards, or through an intermediate router
        # that included it first (the same actors either way)
        workers.append({"routers": idx, "tasks_limit": draw(st.sampled_from([1, 2, 1000])),
                        "how": [draw(st.sampled_from(["ctor", "ctor", "late", "nested", "nested-late"])) for _ in idx]})
    jobs = []
    for i in range(draw(st.integers(1, 8))):
        jobs.append({"id": f"j{i}", "name": draw(st.sampled_from(NAMES + ["zz_unknown"])),
                     "queue": draw(st.sampled_from(QUEUES + ["q_unserved", "default"])),
                     "at": draw(st.one_of(st.just(0.0), st.integers(0, 1500).map(lambda ms: ms / 1000))),
                     "retries": draw(st.integers(0, 2)),
                     # some jobs are deferred: they pass through the delayed category of a queue other workers poll
                     "delay_ms": draw(st.sampled_from([0, 0, 0, 300, 900, 1500]))})
    if broker != "amqp" and draw(st.integers(0, 3)) == 0:
        # a backlog of messages nobody here serves, older than everything else in one queue (more than one fetch window of 10)
        q = draw(st.sampled_from(QUEUES))
        backlog = [{"id": f"f{i}", "name": "zz_unknown", "queue": q, "at": 0.0, "retries": 0, "delay_ms": 0, "first": True}
                   for i in range(draw(st.sampled_from([9, 10, 11, 20, 25])))]
        jobs = backlog + jobs
    if draw(st.integers(0, 3)) == 0:
        # one message in the shared traffic has a time-to-live that ran out before any worker saw it (whoever meets it dead-letters
        # it; it is not judged here) - the messages around it are owed exactly what they are owed without it
        k = draw(st.integers(0, len(jobs)))
        jobs.insert(k, {"id": "x0", "name": draw(st.sampled_from(NAMES + ["zz_unknown"])), "queue": draw(st.sampled_from(QUEUES)),
                        "at": 0.0, "retries": 0, "delay_ms": 0, "expired": True, "first": True})
    case = {"broker": broker, "seed": draw(st.integers(0, 2**16)), "routers": routers, "workers": workers, "jobs": jobs}
    if broker != "mem":
        case["lat"] = draw(st.lists(st.sampled_from([0.0, 0.001, 0.002]), max_size=15))
    return case


def final_actors(case: dict, worker: dict) -> dict:
    """last registration wins: inside a router in declaration order, across routers in inclusion order"""
    acts: dict = {}
    for ri in worker["routers"]:
        ra: dict = {}
        for r in case["routers"][ri]:
            ra[r["name"]] = r
        acts.update(ra)
    return acts


async def _routing(loop, case, out: Outcome):
    from repid import BasicConverter, Job, MessageCategory, MessageDependency, Queue, Router, Worker

    reset_globals()
    env = Env(case["broker"], loop, case["seed"])
    prod = env.connection("p0", None, buckets=False)
    await prod.connect()
    runs: list = []  # (job id, registration id, worker index)
    current = {"w": None}

    def make_actor(reg: dict):
        async def fn(m: MessageDependency) -> int:
            runs.append((m.key.id_, reg["reg"], m.key.queue, loop.time()))
            return 1
        return fn

    from repid.router import RouterDefaults

    routers = []
    for regs in case["routers"]:
        dq = regs[0].get("router_default") if regs else None
        r = Router(defaults=RouterDefaults(queue=dq)) if dq is not None else Router()
        for reg in regs:
            fn = make_actor(reg)
            kw = {"converter": BasicConverter}
            if reg.get("name_given", True):
                kw["name"] = reg["name"]
            else:
                fn.__name__ = reg["name"]
            if reg.get("queue_given", True):
                kw["queue"] = reg["queue"]
            r.actor(fn, **kw)
        routers.append(r)
    for q in QUEUES + ["q_unserved", "default"]:
        await Queue(q, _connection=prod).declare()
    workers = []
    for wi, w in enumerate(case["workers"]):
        conn = env.connection(f"w{wi}", case.get("lat") if wi == 0 else None, buckets=False)
        await conn.connect()
        how = w.get("how") or ["ctor"] * len(w["routers"])
        # (inclusion order is the order of w["routers"] whichever way a router comes in: constructor routers first would reorder
        #  them, so once one router is included late every following one is too)
        first_late = next((n for n, h in enumerate(how) if h in ("late", "nested-late")), len(how))

        def via(i: int, h: str):
            if h.startswith("nested"):
                outer = Router()
                outer.include_router(routers[i])
                return outer
            return routers[i]

        wk = Worker(routers=[via(i, h) for i, h in list(zip(w["routers"], how))[:first_late]], tasks_limit=w["tasks_limit"],
                    graceful_shutdown_time=3.0, _connection=conn)
        for i, h in list(zip(w["routers"], how))[first_late:]:
            wk.include_router(via(i, h))
        # structural: the worker holds exactly the last-wins union
        exp = final_actors(case, w)
        got = {n: a.queue for n, a in wk.actors.items()}
        if got != {n: r["queue"] for n, r in exp.items()}:
            out.v("actors-union", f"worker {wi} built from routers {w['routers']}: actors {got}, expected "
                  f"{ {n: r['queue'] for n, r in exp.items()} }")
        exp_tbq: dict = {}
        for n, r in exp.items():
            exp_tbq.setdefault(r["queue"], set()).add(n)
        got_tbq = {q: set(t) for q, t in wk.topics_by_queue.items() if t}
        if got_tbq != exp_tbq:
            out.v("topics-by-queue", f"worker {wi}: serves {got_tbq}, but its actors are {exp_tbq} (routers {case['routers']})",
                  stale=any(got_tbq.get(q, set()) - exp_tbq.get(q, set()) for q in got_tbq))
        workers.append(wk)
    enq: dict = {}
    due: dict = {}

    async def produce(j):
        await asyncio.sleep(j["at"])
        extra = {}
        if j.get("delay_ms"):
            extra["deferred_until"] = vclock.VDateTime.now() + timedelta(milliseconds=j["delay_ms"])
            due[j["id"]] = loop.time() + j["delay_ms"] / 1000
        if j.get("expired"):
            extra["ttl"] = timedelta(seconds=1)
        job = Job(j["name"], queue=j["queue"], id_=j["id"], retries=j["retries"], _connection=prod, **extra)
        if j.get("expired"):
            job.timestamp = vclock.VDateTime.now() - timedelta(seconds=5)  # (created a while ago, enqueued only now)
        enq[j["id"]] = await job.enqueue()

    for j in case["jobs"]:
        if j.get("first"):
            await produce(j)  # in order, before anything else
    prods = [asyncio.ensure_future(produce(j)) for j in case["jobs"] if not j.get("first")]
    tasks, handlers = [], []
    for wk in workers:
        tasks.append(asyncio.ensure_future(wk.run()))
        for _ in range(300):
            await asyncio.sleep(0)
            if loop.sig_handlers.get(int(signal.SIGTERM)):
                break
        handlers.append(loop.sig_handlers.pop(int(signal.SIGTERM), None))
        loop.sig_handlers.pop(int(signal.SIGINT), None)
    # who should run what
    expect: dict = {}
    for j in case["jobs"]:
        regs = set()
        for w in case["workers"]:
            a = final_actors(case, w).get(j["name"])
            if a is not None and a["queue"] == j["queue"]:
                regs.add(a["reg"])
        expect[j["id"]] = regs
    own = [j["id"] for j in case["jobs"] if expect[j["id"]] and not j.get("expired")]
    bound = 2.0 + 1.5 + len([j for j in case["jobs"] if not j.get("first")]) * 1.2 + (3.5 if any(j.get("delay_ms") for j in case["jobs"]) else 0.0)
    while loop.time() < bound:
        await asyncio.sleep(0.1)
        if all(p.done() for p in prods) and all(any(r[0] == i for r in runs) for i in own):
            break
    await asyncio.sleep(0.6)
    t_stop = loop.time()
    for h in handlers:
        if h is not None:
            try:
                h[0](*h[1])
            except ValueError:
                pass
    done, pending = await asyncio.wait(tasks, timeout=30.0)
    for t in pending:
        out.v("worker-stuck", "a worker did not return after the stop signal")
        t.cancel()
    for t in done:
        if not t.cancelled() and t.exception() is not None:
            out.v("worker-died", f"Worker.run() raised {t.exception()!r}")
    await asyncio.gather(*prods, return_exceptions=True)
    await asyncio.sleep(0.5)
    pr = env.probe()
    for j in case["jobs"]:
        id_ = j["id"]
        rs = [r for r in runs if r[0] == id_]
        places = pr.get(id_, [])
        tag = f"job {id_} (name {j['name']!r}, queue {j['queue']!r})"
        if j.get("expired"):
            continue  # (what becomes of an expired message is C12's business)
        if expect[id_]:
            if len(rs) == 0:
                # RabbitMQ filters topics by reject+requeue: is some message of this queue foreign to a worker consuming it?
                def consumes(w, q):
                    return any(r["queue"] == q for r in final_actors(case, w).values())

                def foreign_to(w, o):
                    a = final_actors(case, w).get(o["name"])
                    return a is None or a["queue"] != o["queue"]

                contention = any(consumes(w, j["queue"]) and foreign_to(w, o)
                                 for w in case["workers"] for o in case["jobs"] if o["queue"] == j["queue"])
                out.v("own-job-not-executed", f"{tag}: some worker serves it but it was not executed within {bound:.1f}s; places "
                      f"{[p.short() for p in places]}", broker=case["broker"], foreign_requeue_contention=bool(contention))
            elif len(rs) > 1:
                out.v("executed-twice", f"{tag}: executed {len(rs)} times {rs}")
            elif id_ in due and rs[0][3] < due[id_] - 0.001:
                out.v("executed-early", f"{tag}: deferred until {due[id_]:.3f}, executed at {rs[0][3]:.3f}")
            elif rs[0][1] not in expect[id_]:
                out.v("wrong-actor", f"{tag}: executed by registration {rs[0][1]}, expected one of {sorted(expect[id_])}")
        else:
            if rs:
                out.v("foreign-executed", f"{tag}: no worker has an actor of that name on that queue, yet registration {rs[0][1]} ran it "
                      f"(routers {case['routers']}, workers {case['workers']})", broker=case["broker"])
                continue
            if id_ not in enq:
                continue
            kinds = [p.kind for p in places]
            if kinds != ["waiting"] and not (j.get("delay_ms") and kinds == ["delayed"]):
                out.v("foreign-not-left-alone", f"{tag}: must stay waiting in its queue, found {[p.short() for p in places]}",
                      broker=case["broker"], kinds=sorted(kinds))
            elif places[0].queue != j["queue"] or (places[0].params is not None and places[0].params != enq[id_][2]):
                out.v("foreign-changed", f"{tag}: changed while no worker served it: {places[0]}")
    # foreign messages stay available to other workers: a later consumer for the topic gets them
    leftovers = [j for j in case["jobs"] if not expect[j["id"]] and not j.get("expired") and j["id"] in enq and not any(r[0] == j["id"] for r in runs)]
    if leftovers:
        j = leftovers[0]
        c = prod.message_broker.get_consumer(j["queue"], [j["name"]], None, MessageCategory.NORMAL)
        await c.start()
        want = {x["id"] for x in leftovers if x["queue"] == j["queue"] and x["name"] == j["name"]}
        got = set()
        try:
            for _ in range(len(want)):
                k, _p, _q = await asyncio.wait_for(c.consume(), timeout=2.5)
                got.add(k.id_)
                if k.topic != j["name"]:
                    out.v("topic-filter", f"consumer for topic {j['name']!r} received message {k.id_} of topic {k.topic!r}", broker=case["broker"])
        except asyncio.TimeoutError:
            pass
        await c.finish()
        if got != want and not (got - want):
            out.v("foreign-not-available", f"messages {sorted(want - got)} of topic {j['name']!r} in {j['queue']!r} are not consumable "
                  "by a later consumer for that topic", broker=case["broker"])
    overrides = len({(r["name"]) for regs in case["routers"] for r in regs}) < sum(len(regs) for regs in case["routers"])
    shared_foreign = any(not expect[a["id"]] and expect[b["id"]] and a["queue"] == b["queue"] for a in case["jobs"] for b in case["jobs"])
    out.nontrivial = overrides or shared_foreign
    out.cls("broker-" + case["broker"], "override" if overrides else "no-override",
            "foreign-shares-queue" if shared_foreign else "no-shared-foreign", f"workers-{len(case['workers'])}")


def run(case: dict) -> Outcome:
    out = Outcome()
    try:
        # timer jitter: two workers polling one in-memory queue in exact lockstep can rotate each other's messages for
        # ever, which no real loop does
        vclock.run(lambda loop: _routing(loop, case, out), max_steps=1_200_000, jitter_seed=case["seed"] + 1)
    except (vclock.StepLimit, vclock.Deadlock) as e:
        out.inconclusive = True
        out.info["watchdog"] = str(e)
    return out


def _s(b):
    return lambda: routing_case(b)


CHECK = Check(
    pid="C11",
    level="exploration",
    rule=(
        "Generated configurations: 1-3 routers with 1-4 registrations each over names {a, ab, a-b, b} (prefix-related on purpose) and "
        "queues {q0,q1,q2}, overrides inside and across routers, 1-2 workers built from generated router subsets in generated inclusion "
        "order (handed to the constructor, included afterwards, or through an intermediate router), registrations with or without an explicit queue / name (router default queue, function name), tasks_limit in {1,2,1000}; 1-8 jobs over (name in pool + unknown, queue in pool + unserved), enqueued before and while "
        "the workers run; three brokers. Oracle: last-registration-wins model: a job is executed iff some worker's final actor of that "
        "name is registered on the job's queue, then exactly once by exactly that registration; every other message stays waiting in its "
        "own queue with unchanged parameters and is consumable by a later consumer for its topic; own jobs finish within a bound; "
        "worker.actors / topics_by_queue equal the last-wins union. Non-trivial = an override or a foreign message sharing a queue "
        "with an own one."
    ),
    assumptions=["virtual clock; Redis and RabbitMQ are in-process server models"],
    subchecks=[
        SubCheck("mem", _s("mem"), run, quick=30, thorough=1200),
        SubCheck("redis", _s("redis"), run, quick=40, thorough=1200),
        SubCheck("amqp", _s("amqp"), run, quick=40, thorough=1200),
    ],
)
