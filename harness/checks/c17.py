"""C17 — Middleware only observes."""
# NOTE: no `from __future__ import annotations` (generated subscribers are plain functions; actors need real annotations)
import asyncio
from datetime import timedelta
import json
from typing import Any

from hypothesis import strategies as st

from harness import vclock
from harness.brokers import Env, reset_globals
from harness.core import Check, Outcome, SubCheck

# argument names of the wrapped operations (as declared by the abstract classes)
OP_ARGS = {
    "queue_declare": ["queue_name"], "queue_flush": ["queue_name"], "queue_delete": ["queue_name"],
    "enqueue": ["key", "payload", "params"], "requeue": ["key", "payload", "params"],
    "ack": ["key"], "nack": ["key"], "reject": ["key"], "consume": [],
    "get_bucket": ["id_"], "store_bucket": ["id_", "payload"], "delete_bucket": ["id_"],
    "actor_run": ["actor", "key", "parameters", "payload", "connection"],
}
SCRIPT_OPS = ["queue_declare", "store_bucket", "get_bucket", "enqueue", "consume", "requeue", "consume", "reject", "consume",
              "nack", "enqueue2", "consume", "ack", "consume_empty", "ack_unknown_queue", "actor_run", "delete_bucket", "queue_flush",
              "queue_delete"]


@st.composite
def mw_case(draw, broker):
    subs = []
    for op in OP_ARGS:
        for phase in ("before", "after"):
            if draw(st.integers(0, 2)) == 0:
                continue
            for _ in range(draw(st.integers(1, 3))):
                names = OP_ARGS[op] + (["result"] if phase == "after" else [])
                params = [n for n in names if draw(st.booleans())]
                # parameters without a default: if the signal does not carry one of them the subscriber cannot even be
                # called - that is just one more misbehaving subscriber and must not disturb the operation either
                required = [n for n in params if draw(st.integers(0, 3)) == 0]
                if draw(st.integers(0, 7)) == 0:
                    required.append("not_a_signal_argument")
                    params = params + ["not_a_signal_argument"]
                subs.append({"signal": f"{phase}_{op}", "params": params, "required": required, "async": draw(st.booleans()),
                             "behave": draw(st.sampled_from(["ok", "ok", "raise", "sleep", "return-garbage"])),
                             # what a raising subscriber's exception says (any text: it is data, e.g. a quoted payload)
                             "text": draw(st.sampled_from(["subscriber failed", "subscriber failed", "{}", "{0}", "{x}", '{"k": 1}', "}{", "%s %(x)s"])),
                             # plain function, method of a middleware object, or function of a middleware class
                             "via": draw(st.sampled_from(["fn", "fn", "obj", "cls"]))})
    for i, sp in enumerate(list(subs)):
        if sp["via"] == "obj" and draw(st.integers(0, 2)) == 0:
            subs.append({**sp, "twin_of": i})  # the same middleware class instantiated a second time
    return {"broker": broker, "seed": draw(st.integers(0, 999)), "subs": subs,
            "style": {op: draw(st.sampled_from(["pos", "kw", "mixed"])) for op in OP_ARGS},
            "two_connections": draw(st.booleans()), "other_subs": draw(st.booleans()),
            "log": draw(st.sampled_from([None, None, None, "DEBUG"]))}


def make_subscriber(spec: dict, log: list, label: str, loop) -> Any:
    req = [p for p in spec["params"] if p in spec.get("required", [])]
    opt = [p for p in spec["params"] if p not in spec.get("required", [])]
    params = ", ".join(req + [f"{p}=MISSING" for p in opt])
    body = f"    LOG.append(({label!r}, {spec['signal']!r}, {{{', '.join(repr(p) + ': ' + p for p in spec['params'])}}}, STATE()))\n"
    if spec["behave"] == "raise":
        body += f"    raise RuntimeError({spec.get('text', 'subscriber failed')!r})\n"
    elif spec["behave"] == "sleep" and spec["async"]:
        body += "    await SLEEP(0.05)\n"
    elif spec["behave"] == "return-garbage":
        body += "    return object()\n"
    via = spec.get("via", "fn")
    if via == "obj":
        params = "self" + (", " + params if params else "")
    src = f"{'async ' if spec['async'] else ''}def {spec['signal']}({params}):\n{body}"
    ns = {"MISSING": MISSING, "LOG": log, "SLEEP": asyncio.sleep, "STATE": lambda: None}
    exec(compile(src, "<subscriber>", "exec"), ns)  # noqa: S102
    return ns[spec["signal"]], ns


def register(middleware, spec: dict, fn, classes: dict | None = None, index: int = -1) -> None:
    via = spec.get("via", "fn")
    if via == "fn":
        middleware.add_subscriber(fn)
        return
    if spec.get("twin_of") is not None and classes is not None and spec["twin_of"] in classes:
        # a second instance of a middleware class that is registered already (one per application component, say): its
        # subscribers are subscribers like any other
        middleware.add_middleware(classes[spec["twin_of"]]())
        return
    # a helper that is no signal name rides along: it must be ignored
    cls = type("GeneratedMiddleware", (), {spec["signal"]: fn, "helper": (lambda *a, **k: None)})
    if classes is not None:
        classes[index] = cls
    middleware.add_middleware(cls() if via == "obj" else cls)


class _Missing:
    def __repr__(self) -> str:
        return "MISSING"


MISSING = _Missing()


def call_style(style: str, names: list, values: list):
    if style == "pos":
        return list(values), {}
    if style == "kw":
        return [], dict(zip(names, values))
    k = len(values) // 2
    return list(values[:k]), dict(zip(names[k:], values[k:]))


trace_probe: list = []  # the probe of the run with subscribers (module-level: the script's return value is compared as a whole)


async def _script(loop, case, out: Outcome, with_subs: bool):
    """Run the lifecycle script; returns (per-op results, final state, signal log, call log)."""
    from repid import BasicConverter, MessageCategory, MessageDependency, Router, Worker
    from repid.data._buckets import ArgsBucket
    from repid.data._key import RoutingKey
    from repid.data._parameters import DelayProperties, Parameters, RetriesProperties

    reset_globals(case.get("log"))
    env = Env(case["broker"], loop, case["seed"])
    conn = env.connection("A")
    await conn.connect()
    log: list = []
    sentinel: list = []
    state_fns = []
    probe = None
    if with_subs:
        from harness.mwprobe import Probe

        probe = Probe(loop)
        probe.attach(conn)
        trace_probe.append(probe)
        classes: dict = {}
        for si, spec in enumerate(case["subs"]):
            fn, ns = make_subscriber(spec, log, "A", loop)
            ns["STATE"] = lambda: _state(env)
            register(conn.middleware, spec, fn, classes, si)
        # sentinels (never counted by the per-operation oracle): which keys do enqueue signals report?
        def before_enqueue(key=None):  # noqa: ANN001
            sentinel.append(("before_enqueue", getattr(key, "id_", None)))

        def after_enqueue(key=None):  # noqa: ANN001
            sentinel.append(("after_enqueue", getattr(key, "id_", None)))

        conn.middleware.add_subscriber(before_enqueue)
        conn.middleware.add_subscriber(after_enqueue)
    connB = None
    if case["two_connections"]:
        connB = env.connection("B", share_memory=False) if case["broker"] == "mem" else env.connection("B")
        await connB.connect()
        if with_subs and case["other_subs"]:
            for op in OP_ARGS:
                for phase in ("before", "after"):
                    fn, ns = make_subscriber({"signal": f"{phase}_{op}", "params": [], "async": True, "behave": "ok"}, log, "B", loop)
                    connB.middleware.add_subscriber(fn)
    b, ab = conn.message_broker, conn.args_bucket_broker
    key = RoutingKey(topic="act", queue="qm", priority=5, id_="k1")
    key2 = RoutingKey(topic="act", queue="qm", priority=5, id_="k2")
    params = Parameters(retries=RetriesProperties(max_amount=2))
    params2 = Parameters(retries=RetriesProperties(max_amount=2, already_tried=1),
                         delay=DelayProperties(next_execution_time=vclock.VDateTime.now()))
    bucket = ArgsBucket(data=json.dumps({"x": 3}))
    results: list = []
    calls: list = []  # (op, actual kwargs by name, state before)
    consumer = None
    ran: list = []

    async def do(op: str, target: Any, method: str, names: list, values: list) -> Any:
        a, kw = call_style(case["style"][op], names, values)
        before_state = _state(env)
        calls.append({"op": op, "actual": dict(zip(names, values)), "before": before_state, "log_start": len(log)})
        try:
            r = await getattr(target, method)(*a, **kw)
            results.append((op, "ok", _norm(r)))
            calls[-1]["returned"] = True
            calls[-1]["result"] = r
        except Exception as e:  # noqa: BLE001
            results.append((op, "raise", type(e).__name__))
            calls[-1]["returned"] = False
            r = None
        calls[-1]["log_end"] = len(log)
        calls[-1]["after"] = _state(env)
        return r

    for step in SCRIPT_OPS:
        if step == "queue_declare":
            await do(step, b, "queue_declare", ["queue_name"], ["qm"])
        elif step == "store_bucket":
            await do(step, ab, "store_bucket", ["id_", "payload"], ["bk1", bucket])
        elif step == "get_bucket":
            await do(step, ab, "get_bucket", ["id_"], ["bk1"])
        elif step == "delete_bucket":
            await do(step, ab, "delete_bucket", ["id_"], ["bk1"])
        elif step == "enqueue":
            await do("enqueue", b, "enqueue", ["key", "payload", "params"], [key, '{"x": 1}', params])
        elif step == "enqueue2":
            # defaults left to the callee: the signal then carries only what was actually passed
            await do("enqueue", b, "enqueue", ["key", "payload"], [key2, '{"x": 2}'])
        elif step == "ack_unknown_queue":
            if case["broker"] == "mem":  # an operation that raises: no after-signal may follow
                await do("ack", b, "ack", ["key"], [RoutingKey(topic="act", queue="no_such_queue", priority=5, id_="zz")])
        elif step in ("consume", "consume_empty"):
            if consumer is None:
                consumer = b.get_consumer("qm", None, None, MessageCategory.NORMAL)
                await consumer.start()
            calls.append({"op": "consume", "actual": {}, "before": _state(env), "log_start": len(log)})
            try:
                r = await asyncio.wait_for(consumer.consume(), timeout=2.5 if step == "consume" else 0.35)
                results.append(("consume", "ok", r[0].id_))
                calls[-1]["returned"] = True
                calls[-1]["result"] = r
            except asyncio.TimeoutError:
                results.append(("consume", "timeout", None))
                calls[-1]["returned"] = False
                calls[-1]["cancelled"] = True
            calls[-1]["log_end"] = len(log)
            calls[-1]["after"] = _state(env)
        elif step in ("requeue",):
            await do(step, b, "requeue", ["key", "payload", "params"], [key, '{"x": 9}', params2])
        elif step in ("reject", "nack", "ack"):
            last = next((c for c in reversed(calls) if c["op"] == "consume" and c.get("returned")), None)
            k = last["result"][0] if last else key
            await do(step, b, step, ["key"], [k])
        elif step == "actor_run":
            if consumer is not None:
                await consumer.finish()
                consumer = None
                await asyncio.sleep(0.15)
            router = Router()

            async def act(m: MessageDependency, x: int = 0) -> int:
                ran.append(x)
                if x == 4:
                    # a wrapped operation performed *inside* the (wrapped) actor run is nested: it must emit nothing
                    await conn.message_broker.enqueue(RoutingKey(topic="act", queue="qm", priority=5, id_="child"), '{"x": 5}', Parameters())
                return x * 2

            router.actor(act, name="act", queue="qm", converter=BasicConverter)
            key3 = RoutingKey(topic="act", queue="qm", priority=5, id_="k3")
            wa = Worker(routers=[router], messages_limit=1, handle_signals=[], _connection=conn)
            calls.append({"op": "worker", "actual": {}, "before": _state(env), "log_start": len(log)})
            wt = asyncio.ensure_future(wa.run())
            await asyncio.sleep(0.05)
            if connB is not None:
                # a second worker (other connection) comes up in the same process while the first is already running
                rb = Router()
                rb.actor(act, name="act", queue="qother", converter=BasicConverter)
                from repid._runner import _Runner

                _Runner(_connection=connB)
            await b.enqueue(key3, '{"x": 4}', Parameters())
            try:
                await asyncio.wait_for(wt, timeout=20.0)
                results.append(("worker", "ok", list(ran)))
            except Exception as e:  # noqa: BLE001
                results.append(("worker", "raise", type(e).__name__))
            calls[-1]["log_end"] = len(log)
            calls[-1]["after"] = _state(env)
        elif step == "queue_flush":
            await do(step, b, "queue_flush", ["queue_name"], ["qm"])
        elif step == "queue_delete":
            await do(step, b, "queue_delete", ["queue_name"], ["qm"])
    if consumer is not None:
        await consumer.finish()
    await asyncio.sleep(0.2)
    if probe is not None:
        probe.detach()
    return results, _state(env), log, calls, sentinel


def _norm(r: Any) -> Any:
    try:
        return json.loads(json.dumps(r, default=str))
    except Exception:  # noqa: BLE001
        return str(r)


def _state(env: Env) -> str:
    pr = env.probe()
    # Redis / RabbitMQ consumers prefetch on their own: "waiting" and "held" are not told apart there
    m = (lambda k: k) if env.kind == "mem" else (lambda k: "live" if k in ("waiting", "held") else k)
    return json.dumps({k: sorted(m(p.kind) for p in v) for k, v in sorted(pr.items())})


def run(case: dict) -> Outcome:
    out = Outcome()
    trace_probe.clear()
    try:
        ref = vclock.run(lambda loop: _script(loop, case, out, False), max_steps=600_000)
        got = vclock.run(lambda loop: _script(loop, case, out, True), max_steps=600_000)
    except (vclock.StepLimit, vclock.Deadlock) as e:
        out.inconclusive = True
        out.info["watchdog"] = str(e)
        return out
    finally:
        for pb in trace_probe:
            pb.detach()
    # whoever executed a wrapped operation (the script, the worker, a consumer's own background task): every top-level
    # execution was announced, nested ones were not
    for pb in trace_probe:
        for m in pb.mismatches():
            out.v("signal-completeness", m, broker=case["broker"])
    r_ref, s_ref, _, _, _ = ref
    r_got, s_got, log, calls, sentinel = got
    nested = [x for x in sentinel if x[1] == "child"]
    if nested:
        out.v("nested-signal", f"an enqueue performed inside the actor run (nested in a wrapped operation) emitted {sorted({x[0] for x in nested})}",
              where="inside-actor")
    # differential: same results / exceptions / final state with and without subscribers
    if r_ref != r_got:
        diff = next(((a, b) for a, b in zip(r_ref, r_got) if a != b), (r_ref[-1:], r_got[-1:]))
        out.v("subscribers-changed-result", f"operation results differ with subscribers: without {diff[0]}, with {diff[1]}")
    if s_ref != s_got:
        out.v("subscribers-changed-state", f"final broker state differs: without {s_ref}, with {s_got}")
    # signals
    subs_by_signal: dict = {}
    for s in case["subs"]:
        subs_by_signal.setdefault(s["signal"], []).append(s)
    for c in calls:
        op = c["op"]
        seg = log[c["log_start"]:c["log_end"]]
        if any(lbl == "B" for (lbl, *_r) in seg):
            wrong = [x for x in seg if x[0] == "B"]
            out.v("signal-to-wrong-connection", f"during {op} on connection A, connection B's subscriber {wrong[0][1]} was called",
                  signal=wrong[0][1])
        seg = [x for x in seg if x[0] == "A"]
        if op == "worker":
            exp_ops = None  # the worker performs several wrapped operations; checked below for actor_run only
            ar_b = [x for x in seg if x[1] == "before_actor_run"]
            ar_a = [x for x in seg if x[1] == "after_actor_run"]
            ar_args = set(OP_ARGS["actor_run"])
            nb = len([s_ for s_ in subs_by_signal.get("before_actor_run", []) if all(r in ar_args for r in s_.get("required", []))])
            na = len([s_ for s_ in subs_by_signal.get("after_actor_run", [])
                      if all(r in ar_args | {"result"} for r in s_.get("required", []))])
            if len(ar_b) != nb or len(ar_a) != na:
                out.v("actor-run-signals", f"one actor run: before_actor_run reached {len(ar_b)} of {nb} subscribers, after_actor_run "
                      f"{len(ar_a)} of {na}")
            continue
        for phase in ("before", "after"):
            sig = f"{phase}_{op}"
            want_subs = subs_by_signal.get(sig, [])
            emitted = phase == "before" or c.get("returned")
            if c.get("cancelled") and phase == "after":
                emitted = False
            got_calls = [x for x in seg if x[1] == sig]
            if emitted:
                have = set(c["actual"]) | ({"result"} if phase == "after" else set())
                want_subs = [s_ for s_ in want_subs if all(r in have for r in s_.get("required", []))]
            if emitted and len(got_calls) != len(want_subs):
                out.v("signal-count", f"{op}: {sig} reached {len(got_calls)} subscribers, {len(want_subs)} are subscribed "
                      f"(exactly one emission expected)", phase=phase)
                continue
            if not emitted and got_calls:
                out.v("after-signal-without-success", f"{op} did not return but {sig} was emitted")
                continue
            if not emitted:
                continue
            actual = dict(c["actual"])
            if phase == "after":
                actual["result"] = c.get("result")
            # every subscriber sees the actual arguments it asked for, by name
            exp_views = sorted(json.dumps({k: _ident(actual[k]) for k in s["params"] if k in actual}, sort_keys=True) for s in want_subs)
            got_views = sorted(json.dumps({k: _ident(v) for k, v in x[2].items() if v is not MISSING}, sort_keys=True) for x in got_calls)
            if exp_views != got_views:
                out.v("signal-arguments", f"{sig}: subscribers received {got_views}, expected {exp_views}", phase=phase)
            if phase == "before" and op != "consume" and any(x[3] != c["before"] for x in got_calls):
                out.v("before-signal-after-effect", f"{sig} was emitted when the operation had already taken effect: state "
                      f"{[x[3] for x in got_calls][0]} vs pre-state {c['before']}")
        others = [x for x in seg if x[1] not in (f"before_{op}", f"after_{op}")]
        if others:
            out.v("nested-signal", f"{op} (a single wrapped call) also emitted {sorted({x[1] for x in others})}")
    beh = {s["behave"] for s in case["subs"]}
    partial = any(len(s["params"]) < len(OP_ARGS[s["signal"].split('_', 1)[1]]) for s in case["subs"])
    out.nontrivial = "raise" in beh or partial or case["two_connections"]
    out.cls("broker-" + case["broker"], "two-connections" if case["two_connections"] else "one-connection",
            "raising-subscriber" if "raise" in beh else "no-raise", f"subs-{min(len(case['subs']) // 10, 5)}0+")
    return out


def _ident(v: Any) -> Any:
    if v is None or isinstance(v, (str, int, float, bool)):
        return v
    if isinstance(v, tuple):
        return [_ident(x) for x in v]
    return f"<{type(v).__name__}:{getattr(getattr(v, 'id_', None), '__str__', lambda: '')() or getattr(v, 'data', '') or ''}>"


# ----------------------------------------------------------------------------- background work after a transient fault


@st.composite
def fault_case(draw):
    """Redis: the consumer's own background task dead-letters expired messages and hands live ones out; one round trip of the
    worker's client fails.  Whatever the library does about it (give up, restart), operations that do execute are announced."""
    return {"seed": draw(st.integers(0, 999)), "expired": draw(st.integers(1, 3)), "live": draw(st.integers(0, 2)),
            "fail_at": draw(st.one_of(st.none(), st.integers(1, 40))), "attempts": draw(st.integers(2, 4)),
            "late_expired": draw(st.booleans()), "lat": draw(st.lists(st.sampled_from([0.0, 0.001]), max_size=8))}


async def _fault(loop, case, out: Outcome):
    from harness.mwprobe import Probe
    from repid import MessageCategory
    from repid.data._key import RoutingKey
    from repid.data._parameters import Parameters

    reset_globals()
    env = Env("redis", loop, case["seed"])
    prod = env.connection("P", None, buckets=False)
    await prod.connect()
    await prod.message_broker.queue_declare("qx")
    conn = env.connection("A", case["lat"], buckets=False)
    await conn.connect()
    probe = Probe(loop)
    probe.attach(conn)
    try:
        now = vclock.VDateTime.now()
        old = Parameters(timestamp=now - timedelta(seconds=30), ttl=timedelta(seconds=1))
        n = 0
        for _ in range(case["expired"]):
            n += 1
            await prod.message_broker.enqueue(RoutingKey(topic="t", queue="qx", priority=5, id_=f"e{n}"), "", old)
        for i in range(case["live"]):
            await prod.message_broker.enqueue(RoutingKey(topic="t", queue="qx", priority=5, id_=f"l{i}"), "", Parameters())
        b = conn.message_broker
        c = b.get_consumer("qx", None, None, MessageCategory.NORMAL)
        client = env.clients["A"]
        if case["fail_at"] is not None:
            client.fail_at = {client.nrt + case["fail_at"]}
        await c.start()
        for k in range(case["attempts"]):
            try:
                key, _p, _q = await asyncio.wait_for(c.consume(), timeout=1.6)
                await b.ack(key)
            except asyncio.TimeoutError:
                pass
            except Exception:  # noqa: BLE001  (the injected fault may surface here)
                pass
            if case["late_expired"] and k == 0:
                n += 1
                await prod.message_broker.enqueue(RoutingKey(topic="t", queue="qx", priority=5, id_=f"e{n}"), "", old)
        try:
            await asyncio.wait_for(c.finish(), timeout=5.0)
        except (asyncio.TimeoutError, Exception):  # noqa: BLE001
            pass
        await asyncio.sleep(0.5)
    finally:
        probe.detach()
    for m in probe.mismatches():
        out.v("signal-completeness", m, broker="redis", fault=case["fail_at"] is not None)
    nacks = [e for e in probe.execs if e["op"] == "nack" and e["top"]]
    out.nontrivial = bool(nacks)
    out.cls("fault" if case["fail_at"] is not None else "no-fault", "background-nack" if nacks else "no-background-nack",
            "fault-hit" if case["fail_at"] is not None and env.clients["A"].nrt >= min(env.clients["A"].fail_at or {10**9}) else "fault-not-reached")


def run_fault(case: dict) -> Outcome:
    out = Outcome()
    try:
        vclock.run(lambda loop: _fault(loop, case, out), max_steps=400_000)
    except (vclock.StepLimit, vclock.Deadlock) as e:
        out.inconclusive = True
        out.info["watchdog"] = str(e)
    return out


# ----------------------------------------------------------------------------- many slow sync subscribers at once


@st.composite
def slow_subs_case(draw):
    """'Whatever subscribers do - be slow, be sync': a burst of messages whose before_actor_run subscriber is a slow sync
    function, actors sync as well with a short execution timeout.  Results and final state must equal the subscriber-free run."""
    return {"n": draw(st.sampled_from([60, 80, 8])), "sleep": draw(st.sampled_from([1.0, 1.2])), "seed": draw(st.integers(0, 999)),
            "signal": draw(st.sampled_from(["before_actor_run", "before_actor_run", "after_actor_run", "before_ack"]))}


async def _slow_subs(loop, case, with_subs: bool):
    import time as _time

    from repid import BasicConverter, Job, Queue, Router, Worker

    reset_globals()
    env = Env("mem", loop, case["seed"])
    conn = env.connection("A", None, buckets=False)
    await conn.connect()
    ran: list = []

    def work(x: int) -> int:
        ran.append(x)
        return x

    if with_subs:
        def sub() -> None:
            _time.sleep(case["sleep"])  # a slow sync subscriber (runs in a thread)
        sub.__name__ = case["signal"]
        conn.middleware.add_subscriber(sub)
    router = Router()
    router.actor(work, name="work", queue="qs", converter=BasicConverter)
    await Queue("qs", _connection=conn).declare()
    for i in range(case["n"]):
        await Job("work", queue="qs", id_=f"s{i}", args={"x": i}, timeout=timedelta(seconds=1), _connection=conn).enqueue()
    w = Worker(routers=[router], tasks_limit=1000, messages_limit=case["n"], handle_signals=[], _connection=conn)
    await asyncio.wait_for(w.run(), timeout=300.0)
    await asyncio.sleep(0.2)
    return sorted(ran), _state(env)


def run_slow_subs(case: dict) -> Outcome:
    out = Outcome()
    try:
        ref = vclock.run(lambda loop: _slow_subs(loop, case, False), max_steps=3_000_000, thread_time=True)
        got = vclock.run(lambda loop: _slow_subs(loop, case, True), max_steps=3_000_000, thread_time=True)
    except (vclock.StepLimit, vclock.Deadlock, asyncio.TimeoutError) as e:
        out.inconclusive = True
        out.info["watchdog"] = repr(e)
        return out
    if ref[0] != got[0]:
        out.v("subscribers-changed-result", f"{case['n']} concurrent messages, slow sync {case['signal']} subscriber: {len(got[0])} actors ran, "
              f"{len(ref[0])} without the subscriber", burst=case["n"])
    elif ref[1] != got[1]:
        out.v("subscribers-changed-state", f"final broker state differs with a slow sync {case['signal']} subscriber: without {ref[1][:200]}, "
              f"with {got[1][:200]}", burst=case["n"])
    out.nontrivial = case["n"] > 32
    out.cls(f"burst-{case['n']}", "signal-" + case["signal"])
    return out


def _s(b):
    return lambda: mw_case(b)


CHECK = Check(
    pid="C17",
    level="exploration",
    rule=(
        "A fixed lifecycle script of every wrapped operation (queue_declare, store/get/delete_bucket, enqueue, consume, requeue, reject, "
        "nack, ack, actor_run through a Worker, queue_flush, queue_delete) is run twice on the same generated case: without subscribers "
        "and with a generated subscriber set (for a drawn subset of the 26 signals, 1-3 subscribers each taking a drawn subset of the "
        "operation's argument names (+result), sync or async, returning / raising / sleeping / returning garbage); call style positional, "
        "keyword or mixed per operation; optionally a second connection with its own subscribers, worker and runner alive. Oracle: "
        "per depth-0 operation exactly one before_<op> (seen while the probe still shows the pre-state) and exactly one after_<op> iff "
        "it returned, each subscriber receiving exactly the actual arguments it names (+result), nothing emitted by nested calls, "
        "nothing delivered to the other connection's subscribers; results, exceptions and final broker state equal the "
        "subscriber-free run. Non-trivial = a raising or partial-signature subscriber, or two connections."
    ),
    assumptions=["virtual clock; Redis and RabbitMQ are in-process server models",
                 "subscriber parameters carry defaults so that a subscriber is always callable; keyword-only subscriber parameters are not generated"],
    subchecks=[
        SubCheck("mem", _s("mem"), run, quick=25, thorough=1200),
        SubCheck("redis", _s("redis"), run, quick=15, thorough=800),
        SubCheck("amqp", _s("amqp"), run, quick=15, thorough=800),
        SubCheck("redis-background", fault_case, run_fault, quick=25, thorough=1000),
        SubCheck("slow-sync-subscribers", slow_subs_case, run_slow_subs, quick=2, thorough=20, shards=8),
    ],
)
