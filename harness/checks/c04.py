"""C04 — Retries are bounded, counted and backed off as configured."""
from __future__ import annotations

from datetime import timedelta

from hypothesis import strategies as st

from harness import gen, model, scenario, vclock
from harness.checks.c02 import check_dispositions
from harness.core import Check, Outcome, SubCheck
from harness.scenario import _params_of

RES = 0.001  # the property's resolution for "never earlier than"


@st.composite
def retry_case(draw, brokers):
    broker = draw(st.sampled_from(list(brokers)))
    actor = {"name": "a_plain", "queue": "q0", "shape": "plain"}
    policy = draw(st.one_of(
        st.fixed_dictionaries({"kind": st.just("table"),
                               "values": st.lists(st.one_of(st.sampled_from([0.0, 0.3, 0.5, 1.0, 2.0]),
                                                            st.integers(0, 3000).map(lambda ms: ms / 1000)),
                                                  min_size=1, max_size=6)}),
        st.fixed_dictionaries({"kind": st.just("default"), "min": st.integers(1, 2), "max": st.integers(2, 5),
                               "mult": st.integers(1, 3), "exp": st.integers(1, 3)}),
    ))
    jobs = []
    for i in range(draw(st.integers(1, 3))):
        n = draw(st.integers(0, 6))
        timeout = draw(st.sampled_from([None, None, 1, 2]))
        fail = st.one_of(gen.outcome_raise(), gen.outcome_timeout()) if timeout else gen.outcome_raise()
        pattern = draw(st.lists(st.booleans(), min_size=1, max_size=7))  # True = this attempt fails
        att = [draw(fail) if f else draw(gen.outcome_ret()) for f in pattern]
        # "...never exceeds N unless a retry is explicitly forced": some attempts answer with an eager retry / forced retry
        for k in range(len(att) - 1):
            if draw(st.integers(0, 7)) == 0:
                att[k] = draw(gen.outcome_eager(with_sets=False, actions=["force_retry", "force_retry", "retry"]))
        j = {"id": f"j{i}", "actor": "a_plain", "queue": "q0", "retries": n, "attempts": att,
             "store_result": draw(st.booleans())}
        if timeout:
            j["timeout"] = timeout
        if draw(st.integers(0, 4)) == 0:
            j["defer_by"] = draw(st.sampled_from([1, 2, 2.5]))
            j["iterations"] = draw(st.integers(1, 2))
        j["enqueue_at"] = draw(st.integers(0, 1500)) / 1000
        jobs.append(j)
    case = {"broker": broker, "seed": draw(st.integers(0, 2**16)), "converter": draw(st.sampled_from(["basic", "pydantic"])),
            "actors": [actor], "policy": policy, "worker": {"tasks_limit": draw(st.sampled_from([1, 2, 1000]))},
            "jobs": jobs}
    if broker != "mem":
        case["lat"] = draw(st.lists(st.sampled_from([0.0, 0.001, 0.003]), max_size=20))
    return gen.finalize(gen.host_dims(draw, case))


def run(case: dict) -> Outcome:
    out = Outcome()
    try:
        tr = scenario.run_case(case)
    except (vclock.StepLimit, vclock.Deadlock) as e:
        out.inconclusive = True
        out.info["watchdog"] = str(e)
        return out
    check_dispositions(out, tr, case)
    any_fail = False
    for j in case["jobs"]:
        id_ = j["id"]
        steps, end = model.chain(j, case.get("policy"))
        obs = tr.spy.for_id(id_, ("ack", "nack", "reject", "requeue"))
        if len(obs) > len(steps):
            steps, end = model.chain({**j, "iterations": 10**9}, case.get("policy"), max_deliveries=len(obs))
        execs = [e for e in tr.execs_of(id_) if e.actor != "provider"]
        n_retry = 0
        for i, (s, e) in enumerate(zip(steps, obs)):
            if s.backoff is None or e.op != "requeue" or not e.done:
                continue
            any_fail = True
            n_retry += 1
            p = _params_of(e)
            if p is None:
                continue
            if p.retries.already_tried > j["retries"] and not (s.kind == "eager" and s.outcome.get("action") == "force_retry"):
                out.v("counter-exceeds-budget", f"job {id_}: requeued with already_tried={p.retries.already_tried} > retries={j['retries']}")
            want = vclock.at(e.t) + timedelta(seconds=s.backoff)
            got = p.delay.next_execution_time
            if got is None or abs((got - want).total_seconds()) > 2e-6:
                out.v("backoff-param", f"job {id_}: retry {s.new_tried} requeued at t={e.t:.6f} with next_execution_time={got}, "
                      f"expected now+policy({s.new_tried})={want}")
            # next execution must not start before failure + backoff (1 ms resolution)
            if i + 1 < len(execs):
                nxt = execs[i + 1]
                earliest = e.t + s.backoff - RES
                if nxt.t0 < earliest:
                    out.v("retry-delivered-early", f"job {id_}: retry {s.new_tried} due at {e.t + s.backoff:.6f} (failure at {e.t:.6f} + "
                          f"{s.backoff}s) but executed at {nxt.t0:.6f}", broker=case["broker"])
        out.cls(f"retries-{min(j['retries'], 4)}{'+' if j['retries'] > 4 else ''}", "end-" + end)
        if n_retry:
            out.cls("has-retry")
    out.cls("broker-" + case["broker"], "policy-" + case["policy"]["kind"])
    out.nontrivial = any_fail and any(j["retries"] >= 1 for j in case["jobs"])
    return out


# ---------------------------------------------------------------- parameter level (large back-offs)


@st.composite
def prep_case(draw):
    return {
        "now_us": draw(st.integers(0, 50 * 366 * 86400 * 10**6)),
        "backoff_us": draw(st.one_of(st.integers(0, 10**7), st.integers(0, 10**15))),
        "max": draw(st.integers(0, 10)),
        "tried": draw(st.integers(0, 12)),
        "defer_by_us": draw(st.one_of(st.none(), st.integers(10**6, 10**10))),
        "ttl_us": draw(st.one_of(st.none(), st.integers(10**6, 10**10))),
        "ts_off_us": draw(st.integers(0, 10**10)),
        "result": draw(st.booleans()),
    }


def run_prep(case: dict) -> Outcome:
    from repid.data._parameters import DelayProperties, Parameters, ResultProperties, RetriesProperties

    out = Outcome()
    with vclock.Pinned(case["now_us"]):
        now = vclock.VDateTime.now()
        ts = now - timedelta(microseconds=case["ts_off_us"])
        p = Parameters(
            execution_timeout=timedelta(seconds=7),
            result=ResultProperties(id_="rid", ttl=timedelta(seconds=9)) if case["result"] else None,
            retries=RetriesProperties(max_amount=case["max"], already_tried=case["tried"]),
            delay=DelayProperties(defer_by=None if case["defer_by_us"] is None else timedelta(microseconds=case["defer_by_us"])),
            timestamp=ts,
            ttl=None if case["ttl_us"] is None else timedelta(microseconds=case["ttl_us"]),
        )
        before = p.encode()
        bo = timedelta(microseconds=case["backoff_us"])
        try:
            q = p._prepare_retry(bo)
        except Exception as e:  # noqa: BLE001
            out.v("prepare-retry-raises", f"_prepare_retry raised {type(e).__name__}: {e} for {case}")
            return out
    if p.encode() != before:
        out.v("prepare-retry-mutates", f"_prepare_retry changed the original parameters for {case}")
    if q.retries.already_tried != case["tried"] + 1 or q.retries.max_amount != case["max"]:
        out.v("prepare-retry-counter", f"already_tried {case['tried']} -> {q.retries.already_tried} (max {q.retries.max_amount}) for {case}")
    if q.delay.next_execution_time != now + bo:
        out.v("prepare-retry-delay", f"next_execution_time={q.delay.next_execution_time}, expected {now + bo} for {case}")
    same = (q.execution_timeout == p.execution_timeout and q.result == p.result and q.timestamp == p.timestamp
            and q.ttl == p.ttl and q.delay.defer_by == p.delay.defer_by and q.delay.delay_until == p.delay.delay_until
            and q.delay.cron == p.delay.cron)
    if not same:
        out.v("prepare-retry-other-fields", f"_prepare_retry changed unrelated fields: {p} -> {q}")
    out.nontrivial = case["backoff_us"] > 0
    out.cls("backoff>1e7us" if case["backoff_us"] > 10**7 else "backoff-small")
    return out


# ---------------------------------------------------------------- large back-offs through each broker's requeue


@st.composite
def large_case(draw, broker):
    days = draw(st.one_of(st.just(0), st.integers(0, 3), st.integers(0, 4000)))
    rest_us = draw(st.one_of(st.integers(0, 6_000_000), st.integers(0, 86_399_999_999)))
    return {"broker": broker, "seed": draw(st.integers(0, 999)), "backoff_us": days * 86_400_000_000 + rest_us,
            "phase_us": draw(st.integers(0, 999_999)), "tried": draw(st.integers(0, 3)), "prio": draw(st.sampled_from([0, 5, 9]))}


async def _large(loop, case, out: Outcome):
    import asyncio

    from repid import MessageCategory
    from repid.data._key import RoutingKey
    from repid.data._parameters import Parameters, RetriesProperties

    from harness.brokers import Env, reset_globals

    reset_globals()
    env = Env(case["broker"], loop, case["seed"])
    conn = env.connection("c0", None, buckets=False)
    await conn.connect()
    b = conn.message_broker
    await b.queue_declare("qr")
    await asyncio.sleep(case["phase_us"] / 1e6)
    key = RoutingKey(topic="t0", queue="qr", priority=case["prio"], id_="r1")
    params = Parameters(retries=RetriesProperties(max_amount=5, already_tried=case["tried"]))
    await b.enqueue(key, "p", params)
    cons = b.get_consumer("qr", None, None, MessageCategory.NORMAL)
    await cons.start()
    try:
        k, _p, prm = await asyncio.wait_for(cons.consume(), timeout=3.0)
    except asyncio.TimeoutError:
        out.inconclusive = True
        await cons.finish()
        return
    backoff = timedelta(microseconds=case["backoff_us"])
    t_fail = loop.time()
    new = prm._prepare_retry(backoff)
    await b.requeue(k, "p", new)
    due = t_fail + case["backoff_us"] / 1e6
    horizon = 8.0
    got_at = None
    try:
        k2, _p2, prm2 = await asyncio.wait_for(cons.consume(), timeout=horizon)
        got_at = loop.time()
        if prm2.retries.already_tried != case["tried"] + 1:
            out.v("retry-counter", f"redelivered with already_tried={prm2.retries.already_tried}, expected {case['tried'] + 1}")
        await b.ack(k2)
    except asyncio.TimeoutError:
        pass
    await cons.finish()
    if got_at is not None and got_at < due - RES:
        out.v("retry-delivered-early", f"retry with back-off {backoff} (failure at {t_fail:.6f}, due {due:.6f}) was delivered at "
              f"{got_at:.6f}, {due - got_at:.3f}s early", broker=case["broker"], over_a_day=case["backoff_us"] >= 86_400_000_000)
    if got_at is None and due < t_fail + horizon - 3.0:
        out.v("retry-not-delivered", f"retry with back-off {backoff} due at {due:.6f} was not delivered by {loop.time():.6f}",
              broker=case["broker"])
    if got_at is None and due > loop.time() + 1.0:
        places = env.probe().get("r1", [])
        if [p.kind for p in places] != ["delayed"]:
            out.v("retry-not-delayed", f"retry due at {due:.6f} should wait in the delayed category, found {[p.short() for p in places]}",
                  broker=case["broker"])
    out.nontrivial = case["backoff_us"] > 0
    out.cls("broker-" + case["broker"], "over-a-day" if case["backoff_us"] >= 86_400_000_000 else "under-a-day")


def run_large(case: dict) -> Outcome:
    out = Outcome()
    try:
        vclock.run(lambda loop: _large(loop, case, out), max_steps=300_000)
    except (vclock.StepLimit, vclock.Deadlock) as e:
        out.inconclusive = True
        out.info["watchdog"] = str(e)
    return out


def _s(brokers):
    return lambda: retry_case(brokers)


CHECK = Check(
    pid="C04",
    level="exploration",
    rule=(
        "Generated retry scenarios: 1-3 jobs with retries N in 0..6, per-attempt fail/succeed pattern (exception or timeout), retry "
        "policy = table of back-offs 0-3 s or default_retry_policy_factory with small parameters, recurring or not, three brokers; "
        "real Worker on the virtual loop. Oracle: model chain (executions = min(first success, N)+1 per scheduling, counter seen by "
        "k-th execution = k-1, requeue carries already_tried+1 <= N and next_execution_time == now+policy(k) to the microsecond, the "
        "next execution starts no earlier than failure+policy(k)-1ms, end state acked/dead/rescheduled). Parameter-level sub-check "
        "calls _prepare_retry with back-offs up to 10^9 s under a pinned clock. Non-trivial = N>=1 and at least one failing attempt."
    ),
    assumptions=[
        "virtual clock; Redis and RabbitMQ are in-process server models",
        "delivery side of very large back-offs is C05's obligation; here they are checked at the parameter level only",
    ],
    subchecks=[
        SubCheck("mem", _s(("mem",)), run, quick=70, thorough=1500),
        SubCheck("redis", _s(("redis",)), run, quick=40, thorough=800),
        SubCheck("amqp", _s(("amqp",)), run, quick=40, thorough=800),
        SubCheck("prepare_retry", prep_case, run_prep, quick=400, thorough=10000),
        SubCheck("large-mem", lambda: large_case("mem"), run_large, quick=8, thorough=300),
        SubCheck("large-redis", lambda: large_case("redis"), run_large, quick=25, thorough=800),
        SubCheck("large-amqp", lambda: large_case("amqp"), run_large, quick=40, thorough=1200),
    ],
)
