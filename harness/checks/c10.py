"""C10 — messages_limit is an upper bound and a stop condition."""
from __future__ import annotations

import asyncio

from hypothesis import strategies as st

from harness import gen, scenario, vclock
from harness.brokers import Env, reset_globals
from harness.core import Check, Outcome, SubCheck

DUR = st.one_of(st.just(0.0), st.sampled_from([0.001, 0.01, 0.1, 0.25, 0.5, 1.0, 2.0, 4.0]),
                st.integers(0, 4000).map(lambda ms: ms / 1000))


@st.composite
def limit_case(draw, brokers):
    broker = draw(st.sampled_from(list(brokers)))
    m = draw(st.integers(1, 5))
    nq = draw(st.integers(1, 3))
    actors = [{"name": f"a{i}", "queue": f"q{i}", "shape": "plain"} for i in range(nq)]
    backlog = m + draw(st.integers(1, 8))
    jobs = []
    for i in range(backlog):
        a = draw(st.sampled_from(actors))
        j = {"id": f"j{i}", "actor": a["name"], "queue": a["queue"], "retries": draw(st.integers(0, 2)),
             "attempts": [{"k": draw(st.sampled_from(["ret", "ret", "ret", "raise"])), "v": i, "exc": "ValueError", "text": "x",
                           "sleep": draw(DUR)}],
             "store_result": False}
        if draw(st.integers(0, 3)) == 0:
            j["enqueue_at"] = draw(st.integers(0, 3000)) / 1000
        jobs.append(j)
    case = {"broker": broker, "seed": draw(st.integers(0, 2**16)), "converter": "basic", "actors": actors,
            "policy": {"kind": "table", "values": [30.0]},
            # (graceful_shutdown_time bounds the wait after a stop *request*; reaching the limit is not one: "however long actors run")
            "worker": {"tasks_limit": draw(st.sampled_from([1, 2, 3, 1000])), "messages_limit": m,
                       "graceful": draw(st.sampled_from([25.0, 25.0, 0.3, 1.0]))},
            "jobs": jobs, "stop": "limit", "horizon": 45.0}
    if draw(st.integers(0, 3)) == 0:
        # some executions break down *after* the actor, outside it: the jobs ask for a stored result but the worker's connection
        # has no results bucket broker.  They were started and are over: they count like any other
        case["worker_buckets"] = False
        for j in jobs:
            if draw(st.booleans()):
                j["store_result"] = True
    if broker != "mem":
        case["lat"] = draw(st.lists(st.sampled_from([0.0, 0.001, 0.003]), max_size=20))
    return gen.host_dims(draw, case)


def run(case: dict) -> Outcome:
    out = Outcome()
    m = case["worker"]["messages_limit"]
    try:
        tr = scenario.run_case(case, settled=lambda t: False)
    except (vclock.StepLimit, vclock.Deadlock) as e:
        out.inconclusive = True
        out.info["watchdog"] = str(e)
        return out
    if tr.run_error is not None:
        out.v("worker-died", f"Worker.run() raised {tr.run_error!r}")
    started = len(tr.execs)
    out.cls("broker-" + case["broker"], f"M-{m}", f"queues-{len(case['actors'])}",
            "tasks_limit>=M" if case["worker"]["tasks_limit"] >= m else "tasks_limit<M")
    out.nontrivial = len(case["jobs"]) > m and any(j["attempts"][0]["sleep"] > 0 for j in case["jobs"])
    if started > m:
        out.v("limit-exceeded", f"messages_limit={m} but {started} actor executions were started "
              f"(tasks_limit={case['worker']['tasks_limit']}, backlog={len(case['jobs'])})")
    if tr.horizon_hit:
        if started >= m and all(e.t1 is not None for e in tr.execs):
            last = max(e.t1 for e in tr.execs)
            out.v("no-return", f"{started} executions finished by t={last:.3f} but Worker.run() had not returned at the horizon "
                  f"{case['horizon']}")
        else:
            out.v("stalled", f"only {started} of {m} executions started before the horizon although {len(case['jobs'])} messages "
                  "were enqueued")
        return out
    if started < m:
        out.v("returned-early", f"Worker.run() returned after {started} executions, messages_limit={m}, backlog={len(case['jobs'])}")
    # return promptly after the M executions finished: consumer finish (5 s) + polling slack
    fin = [e.t1 for e in tr.execs if e.t1 is not None]
    if fin and tr.run_returned_at is not None and tr.run_returned_at > max(fin) + 8.0:
        out.v("slow-return", f"executions finished at {max(fin):.3f}, run() returned at {tr.run_returned_at:.3f}")
    executed = {e.id for e in tr.execs}
    for e in tr.execs:
        if e.end in ("running", "cancelled"):
            out.v("execution-cut", f"execution of {e.id} ended as {e.end}: run() returned before the counted executions finished")
    for j in case["jobs"]:
        id_ = j["id"]
        if id_ in executed or id_ not in tr.enqueued:
            continue
        places = tr.final.get(id_, [])
        if len(places) != 1 or places[0].kind != "waiting":
            out.v("untouched-place", f"message {id_} beyond the limit should still be waiting in its queue, found "
                  f"{[p.short() for p in places]}", places=sorted(p.kind for p in places))
            continue
        key, payload, params = tr.enqueued[id_]
        p = places[0]
        if p.params is not None and (p.params.retries.already_tried != 0 or p.params != params):
            out.v("untouched-params", f"message {id_} beyond the limit changed parameters: {params} -> {p.params}")
        if p.queue != key.queue:
            out.v("untouched-queue", f"message {id_} moved from queue {key.queue} to {p.queue}")
    return out


# ------------------------------------------------------------------ testing plugin: run worker on enqueue


@st.composite
def plugin_case(draw):
    nq = draw(st.integers(1, 2))
    actors = [{"name": f"a{i}", "queue": f"q{i % nq}", "shape": "plain"} for i in range(draw(st.integers(1, 3)))]
    jobs = []
    for i in range(draw(st.integers(1, 6))):
        foreign = draw(st.integers(0, 4)) == 0
        a = draw(st.sampled_from(actors))
        jobs.append({"id": f"j{i}", "actor": "zz_unknown" if foreign else a["name"], "queue": a["queue"],
                     "foreign": foreign, "attempts": [{"k": "ret", "v": i, "sleep": draw(DUR)}], "store_result": False})
    # some jobs are handled by an actor that itself enqueues a follow-up job (run-on-enqueue nests)
    for j in jobs:
        if not j["foreign"] and draw(st.integers(0, 3)) == 0:
            j["spawns"] = draw(st.sampled_from(actors))["name"]
    return {"actors": actors, "jobs": jobs, "policy": None, "converter": "basic"}


async def _plugin(loop, case, out: Outcome):
    from repid import Job, Queue, Worker
    from repid.testing.modifiers import RunWorkerOnEnqueueModifier

    reset_globals()
    env = Env("mem", loop)
    conn = env.connection("c0")
    await conn.connect()
    tr = scenario.Trace(case, env, None)  # type: ignore[arg-type]
    router = scenario.build_router(case, tr, loop)
    spawned: list = []
    queue_of = {a["name"]: a["queue"] for a in case["actors"]}

    async def spawn(child: str = "", target: str = ""):
        spawned.append(("start", child))
        await Job(target, queue=queue_of[target], id_=child, _connection=conn).enqueue()
        spawned.append(("end", child))
        return child

    from repid import BasicConverter

    router.actor(spawn, name="spawn", queue=sorted(queue_of.values())[0], converter=BasicConverter)
    for q in sorted({a["queue"] for a in case["actors"]}):
        await Queue(q, _connection=conn).declare()
    RunWorkerOnEnqueueModifier(
        conn.message_broker,
        lambda: Worker(routers=[router], messages_limit=1, handle_signals=[], auto_declare=False, _connection=conn),
    )
    expected_total = 0
    for j in case["jobs"]:
        before = len(tr.execs)
        if j.get("spawns"):
            child = j["id"] + "-child"
            try:
                await asyncio.wait_for(Job("spawn", queue=sorted(queue_of.values())[0], id_=j["id"],
                                           args={"child": child, "target": j["spawns"]}, _connection=conn).enqueue(), timeout=60.0)
            except asyncio.TimeoutError:
                out.v("plugin-hang", f"enqueue of {j['id']} (whose actor enqueues a follow-up job) did not return within 60 s; "
                      f"progress {spawned[-2:]}")
                return
            new = tr.execs[before:]
            kids = [e for e in new if e.id == child]
            if spawned[-2:] != [("start", child), ("end", child)] or len(kids) != 1 or kids[0].end != "returned":
                out.v("plugin-not-once", f"after enqueue() of {j['id']} returned: spawning actor progress {spawned[-2:]}, follow-up job ran "
                      f"{len(kids)} times")
            expected_total += 1
            continue
        try:
            await asyncio.wait_for(Job(**scenario.job_kwargs(j, conn)).enqueue(), timeout=60.0)
        except asyncio.TimeoutError:
            out.v("plugin-hang", f"enqueue of {j['id']} did not return within 60 s")
            return
        new = tr.execs[before:]
        if j["foreign"]:
            if new:
                out.v("plugin-ran-other", f"enqueue of foreign job {j['id']} ran {[e.id for e in new]}")
            continue
        expected_total += 1
        mine = [e for e in new if e.id == j["id"]]
        if len(mine) != 1 or mine[0].end != "returned":
            out.v("plugin-not-once", f"after enqueue() of {j['id']} returned its actor had run {len(mine)} times "
                  f"({[e.end for e in mine]}), other executions: {[e.id for e in new if e.id != j['id']]}")
        if any(e.id != j["id"] for e in new):
            out.v("plugin-ran-other", f"enqueue of {j['id']} also ran {[e.id for e in new if e.id != j['id']]}")
    pr = env.probe()
    for j in case["jobs"]:
        places = pr.get(j["id"], [])
        if j["foreign"]:
            if [p.kind for p in places] != ["waiting"]:
                out.v("plugin-foreign-place", f"foreign job {j['id']} should stay waiting, found {[p.short() for p in places]}")
        elif places or pr.get(j["id"] + "-child"):
            out.v("plugin-left-over", f"job {j['id']} still present after processing: {[p.short() for p in places]}")


def run_plugin(case: dict) -> Outcome:
    out = Outcome()
    try:
        vclock.run(lambda loop: _plugin(loop, case, out), max_steps=800_000)
    except (vclock.StepLimit, vclock.Deadlock) as e:
        out.v("plugin-hang", f"run-on-enqueue did not finish: {e}")
    out.nontrivial = len(case["jobs"]) >= 2
    out.cls(f"jobs-{len(case['jobs'])}", "has-foreign" if any(j["foreign"] for j in case["jobs"]) else "no-foreign")
    return out


def _s(brokers):
    return lambda: limit_case(brokers)


CHECK = Check(
    pid="C10",
    level="exploration",
    rule=(
        "Generated workloads: messages_limit M in 1..5, backlog M+1..M+8 over 1-3 queues, actor durations 0-4 s (incl. 0 and longer "
        "than a fetch), tasks_limit in {1,2,3,1000}, some jobs arriving while the worker runs, failing jobs with retries; three brokers; "
        "the worker is never signalled (it must stop by itself). Oracle: executions started <= M (exactly M when run() returned), run() "
        "returns by itself soon after they finish, every non-executed message is waiting in its own queue exactly once with parameters "
        "equal to those enqueued. Plugin sub-check: RunWorkerOnEnqueueModifier with Worker(messages_limit=1, handle_signals=[], "
        "auto_declare=False): after each enqueue() returns exactly that job ran once. Non-trivial = backlog > M and a duration > 0."
    ),
    assumptions=["virtual clock; Redis and RabbitMQ are in-process server models",
                 "horizon 45 virtual seconds; not returning by then is reported as a violation (liveness decided as a bound)"],
    subchecks=[
        SubCheck("mem", _s(("mem",)), run, quick=200, thorough=3000),
        SubCheck("redis", _s(("redis",)), run, quick=100, thorough=1500),
        SubCheck("amqp", _s(("amqp",)), run, quick=100, thorough=1500),
        SubCheck("plugin", plugin_case, run_plugin, quick=100, thorough=1500),
    ],
)
