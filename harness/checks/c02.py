"""C02 — Every delivery ends in exactly one, correct disposition (decision-table oracle)."""
from __future__ import annotations

from hypothesis import strategies as st

from harness import gen, model, scenario, vclock
from harness.core import Check, Outcome, SubCheck
from harness.scenario import _params_of
from harness.checks.c02_burst import burst_case, run_burst

TERMINAL = ("ack", "nack", "reject", "requeue")


def check_dispositions(out: Outcome, tr: scenario.Trace, case: dict, *, strict_final: bool = True) -> None:
    """Shared by C02/C04/C13: compare the depth-0 terminal calls per message id with the model chain."""
    if tr.run_error is not None:
        out.v("worker-died", f"Worker.run() raised {type(tr.run_error).__name__}: {tr.run_error}")
    for e in tr.errors:
        if e.startswith("producer failed"):
            out.v("enqueue-failed", e)
        else:
            out.v("worker-stuck", e)
    for j in case["jobs"]:
        id_ = j["id"]
        steps, end = model.chain(j, case.get("policy"))
        obs = tr.spy.for_id(id_, TERMINAL)
        # a message fetched while the worker was already stopping is handed back unstarted (runner `_hand_back`): that is the
        # return of an undelivered message, not the disposition of a delivery (C03 checks it is returned unchanged)
        stop_t = getattr(tr, "stop_requested_at", None)
        obs = [e for e in obs if not (e.op == "reject" and e.caller in ("_hand_back", "_run") and stop_t is not None and e.t >= stop_t)]
        min_len = len(steps)
        if end == "open" and len(obs) > len(steps):
            # a recurring job legitimately keeps running until the worker is stopped: extend the model chain
            steps, end = model.chain({**j, "iterations": 10**9}, case.get("policy"), max_deliveries=len(obs))
            min_len = min(min_len, len(steps))
        tag = f"job {id_} ({j['actor']}, retries={j.get('retries', 0)}, defer_by={j.get('defer_by')})"
        n = min(len(obs), len(steps))
        for i in range(n):
            s, e = steps[i], obs[i]
            kind = s.kind if s.kind != "eager" else "eager-" + s.outcome["action"]
            if e.op != s.op:
                out.v("wrong-disposition", f"{tag}: delivery {i} ({kind}, tried={s.tried}) expected {s.op}, worker called {e.op}",
                      expected=s.op, got=e.op, kind=s.kind)
                break
            if not e.done:
                out.v("disposition-failed", f"{tag}: delivery {i} {e.op} raised {e.error}")
                break
            if s.op == "requeue":
                p = _params_of(e)
                if p is None or p.retries.already_tried != s.new_tried:
                    out.v("wrong-counter", f"{tag}: delivery {i} ({kind}) requeued with already_tried="
                          f"{None if p is None else p.retries.already_tried}, expected {s.new_tried}", resched=s.resched)
                    break
        else:
            if len(obs) > len(steps):
                extra = obs[len(steps)]
                out.v("extra-disposition", f"{tag}: after the chain ended ({end}) the worker called {extra.op} again "
                      f"(calls: {[e.op for e in obs]}, expected {[s.op for s in steps]})", got=extra.op)
            elif len(obs) < min_len:
                if tr.horizon_hit:
                    # the scenario ran into its horizon (model time + 15 s): usually it is just slow.  But a worker that has
                    # been sitting idle for seconds while it holds the message (taken, no body running, no terminal action) has
                    # left a delivery without its terminal action
                    held = any(p_.kind == "held" for p_ in tr.extra.get("at_horizon", {}).get(id_, []))
                    last_busy = max([t for t, n in tr.active_log if n > 0] + [e.t1 or 0.0 for e in tr.execs] + [e.t_done or e.t for e in tr.spy.events if e.t < tr.case.get("horizon", 0.0)] + [0.0])
                    idle_for = tr.case.get("horizon", 0.0) - last_busy
                    if held and tr.active == 0 and idle_for >= 8.0 and tr.run_error is None:
                        out.v("missing-disposition", f"{tag}: expected calls {[s.op for s in steps]}, observed {[e.op for e in obs]}; the worker "
                              f"held the message and did nothing for the last {idle_for:.1f}s before the horizon", idle_held=True)
                    else:
                        out.inconclusive = True
                else:
                    out.v("missing-disposition", f"{tag}: expected calls {[s.op for s in steps]}, observed {[e.op for e in obs]}")
        # executions of the body
        execs = [e for e in tr.execs_of(id_)]
        bodies = [e for e in execs if e.actor != "provider"]
        exp_bodies = [s for s in steps[: len(obs)] if s.body_runs]
        if len(obs) >= min_len and len(bodies) != len(exp_bodies) and all(e.end not in ("running", "cancelled") for e in bodies):
            out.v("execution-count", f"{tag}: actor body ran {len(bodies)} times, expected {len(exp_bodies)}")
        for e in bodies:
            if e.after_eager_marker:
                out.v("ran-after-eager", f"{tag}: actor body continued after an eager response (execution {e.n})")
        for e in execs:
            if e.actor == "provider" and e.after_eager_marker:
                out.v("ran-after-eager", f"{tag}: a dependency answered eagerly and kept running afterwards (execution {e.n})")
        for s, e in zip([s for s in steps if s.body_runs or s.outcome.get("k") in ("depfail", "depeager")], execs):
            if e.tried >= 0 and e.tried != s.tried:
                out.v("counter-seen", f"{tag}: execution {e.n} saw already_tried={e.tried}, expected {s.tried}")
                break
        # final place
        # (when the scenario ran into its horizon an open chain may simply be unfinished; a chain whose last call completed is final)
        if strict_final and len(obs) >= min_len and (not tr.horizon_hit or (end in ("acked", "dead") and all(e.done for e in obs))):
            places = tr.final.get(id_, [])
            desc = [p.short() for p in places]
            if end == "acked" and places:
                out.v("final-place", f"{tag}: acked message still present: {desc}", end=end)
            elif end == "dead" and [p.kind for p in places] != ["dead"]:
                out.v("final-place", f"{tag}: dead-lettered message is in {desc}", end=end)
            elif end == "open" and (len(places) != 1 or places[0].kind == "dead"):
                # (a copy still marked in-flight after shutdown is C03's concern, not a disposition error)
                out.v("final-place", f"{tag}: rescheduled message should exist exactly once and not be dead, found {desc}", end=end)


def classify(out: Outcome, case: dict) -> None:
    kinds = set()
    for j in case["jobs"]:
        steps, end = model.chain(j, case.get("policy"))
        for s in steps:
            kinds.add(s.kind if s.kind != "eager" else "eager-" + s.outcome["action"])
            if s.outcome.get("k") == "timeout":
                kinds.add("timeout")
            if s.outcome.get("k") == "depfail":
                kinds.add("depfail")
            if s.outcome.get("k") == "depeager":
                kinds.add("depeager")
        if j.get("badargs"):
            kinds.add("badargs")
        if j.get("defer_by") is not None:
            kinds.add("recurring")
        kinds.add("end-" + end)
    for k in sorted(kinds):
        out.cls(k)
    out.cls("broker-" + case["broker"], "conv-" + case.get("converter", "basic"), f"jobs-{len(case['jobs'])}")
    classes = {k for k in kinds if not k.startswith("end-")}
    out.nontrivial = (len(case["jobs"]) >= 2 and len(classes) >= 2) or bool(classes - {"success"})


def run(case: dict) -> Outcome:
    out = Outcome()
    classify(out, case)
    try:
        tr = scenario.run_case(case)
    except (vclock.StepLimit, vclock.Deadlock) as e:
        out.inconclusive = True
        out.info["watchdog"] = str(e)
        return out
    check_dispositions(out, tr, case)
    return out


def _strategy(brokers):
    @st.composite
    def strat(draw):
        gen.RARE_EXC[:] = ["BadStrError"]
        try:
            case = draw(gen.worker_case(brokers=brokers))
        finally:
            gen.RARE_EXC[:] = []
        # sometimes the worker's connection has no bucket brokers although jobs ask for results: storing then fails,
        # which must not change any disposition
        if case["broker"] == "mem" and draw(st.integers(0, 5)) == 0 and not any(j.get("args") is not None for j in case["jobs"]):
            case["worker_buckets"] = False
            for j in case["jobs"]:
                # eager set_result needs a results broker at call time (it raises ValueError without one): keep the model simple
                j["attempts"] = [o for o in j["attempts"] if o.get("k") != "eager"] or [{"k": "ret", "v": None, "sleep": 0.0}]
        return gen.finalize(case)

    return strat


CHECK = Check(
    pid="C02",
    level="exploration",
    rule=(
        "Hypothesis-generated worker scenarios: 1-5 jobs over 1-3 scripted actors (async with MessageDependency; required-arg; "
        "Depends provider; sync/thread), per-attempt outcomes from {return JSON, raise 5 exception types, exceed timeout, failing "
        "conversion, failing provider, six eager responses with set_result/set_exception/callback programmes}, retries 0-3, recurring "
        "or not, result storing on/off, Basic/Pydantic converter, tasks_limit 1-1000, run by a real Worker on a virtual-time loop on "
        "the in-memory broker and on the Redis/AMQP server models. Oracle: independent decision-table model (harness/model.py) gives "
        "the exact sequence of terminal broker calls per message id (op and already_tried); compared with calls logged at the "
        "connection boundary, plus body execution counts, never-after-eager marker, final place and Worker.run() returning normally. "
        "Non-trivial = >=2 jobs with different outcome classes or any failure/eager outcome; distinct = distinct JSON case."
    ),
    assumptions=[
        "virtual clock and loop (harness/vclock.py); Redis and RabbitMQ are in-process server models (harness/fredis.py, harness/famqp.py)",
        "raising callbacks and BaseExceptions other than the eager marker are not generated (outside the property's domain)",
        "a scenario whose model chain does not finish inside the computed horizon is counted inconclusive, not failed",
    ],
    subchecks=[
        SubCheck("mem", _strategy(("mem",)), run, quick=120, thorough=2500),
        SubCheck("redis", _strategy(("redis",)), run, quick=40, thorough=800),
        SubCheck("amqp", _strategy(("amqp",)), run, quick=40, thorough=800),
        SubCheck("sync-burst", burst_case, run_burst, quick=2, thorough=40, shards=8),
    ],
)
