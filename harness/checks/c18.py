"""C18 — Dependencies resolve to exactly what their providers return."""
# NOTE: no `from __future__ import annotations`: generated providers/actors carry real annotation objects.
import asyncio
from typing import Annotated, Any  # noqa: F401

from hypothesis import strategies as st

from harness import vclock
from harness.brokers import Env, reset_globals
from harness.core import Check, Outcome, SubCheck


@st.composite
def graph_case(draw):
    n = draw(st.integers(1, 7))
    nodes = []
    depth = {}
    for i in range(n):
        cands = [j for j in range(i) if depth[j] < 3]
        deps = draw(st.lists(st.sampled_from(cands), max_size=3, unique=True)) if cands else []
        depth[i] = 1 + max([depth[j] for j in deps] + [0])
        if i > 0 and draw(st.integers(0, 5)) == 0:
            # a second Depends object over the *same* provider function as an earlier node: used, and overridable, on its own
            j = draw(st.integers(0, i - 1))
            j = nodes[j].get("alias_of", j) if nodes[j].get("alias_of") is not None else j
            depth[i] = depth[j]
            nodes.append({**nodes[j], "id": i, "alias_of": j})
            continue
        nodes.append({"id": i, "async": draw(st.booleans()), "deps": deps, "msg": draw(st.integers(0, 2)) == 0, "tag": f"n{i}",
                      "fails": False, "msg_pos": draw(st.integers(0, 3)), "dflt": draw(st.booleans()),
                      "suspend": draw(st.booleans()),
                      "ddflt": draw(st.sampled_from([None, None, 0, 1, 2])), "kwonly": draw(st.sampled_from([None, None, None, 0, 1])),
                      "wrapped": draw(st.integers(0, 4)) == 0,
                      # the value a provider returns may be anything - also an exception *object* (returned, not raised)
                      "as_exc": draw(st.integers(0, 7)) == 0})
    actor_deps = draw(st.lists(st.integers(0, n - 1), min_size=1, max_size=3, unique=True))
    overrides = []
    for _ in range(draw(st.integers(0, 2))):
        tgt = draw(st.integers(0, n - 1))
        cands = list(range(tgt))
        overrides.append({"node": tgt, "async": draw(st.booleans()),
                          "deps": draw(st.lists(st.sampled_from(cands), max_size=2, unique=True)) if cands else [],
                          "msg": draw(st.integers(0, 2)) == 0, "tag": f"n{tgt}v{len(overrides) + 1}",
                          "msg_pos": draw(st.integers(0, 3)), "dflt": draw(st.booleans()), "suspend": draw(st.booleans()),
                          "ddflt": draw(st.sampled_from([None, None, 0, 1])), "kwonly": draw(st.sampled_from([None, None, None, 0])),
                          "wrapped": draw(st.integers(0, 4)) == 0})
    fail_node = draw(st.one_of(st.none(), st.none(), st.integers(0, n - 1)))
    return {"nodes": nodes, "actor_deps": actor_deps, "overrides": overrides, "fail_node": fail_node,
            "actor_msg": draw(st.booleans()), "actor_msg_pos": draw(st.integers(0, 3)), "payload": draw(st.one_of(st.none(), st.fixed_dictionaries({"x": st.integers(0, 9)}))),
            "retries": draw(st.integers(0, 1)), "concurrent": draw(st.sampled_from([1, 1, 2, 3])), "converter": draw(st.sampled_from(["basic", "pydantic"])),
            "seed": draw(st.integers(0, 999))}


def provider_source(name: str, tag: str, is_async: bool, deps: list, msg: bool, fails: bool, msg_pos: int = 99,
                    dflt: bool = False, suspend: bool = False, as_exc: bool = False, ddflt: int | None = None, kwonly: int | None = None,
                    wrapped: bool = False) -> str:
    params = [f"d{j}: Annotated[str, DEP[{j}]]" for j in deps]
    if msg:
        # the message dependency may be declared anywhere among the annotated ones
        params.insert(min(msg_pos, len(params)), "m: MessageDependency")
    if ddflt is not None:
        # dependency parameters may carry a default value like any other parameter (what a direct call of the function would
        # use); resolution through the worker still gives them their provider's value
        params = [p_ + (" = None" if p_.startswith("m:") else " = 'DEFAULT-NOT-RESOLVED'") if i >= ddflt else p_ for i, p_ in enumerate(params)]
    if kwonly is not None and params:
        params.insert(min(kwonly, len(params) - 1), "*")  # the dependency parameters after it are keyword-only
    if dflt:
        params.append("flag: bool = False")  # a plain parameter with a default is allowed
    parts = [f"{{d{j}}}" for j in deps] + (["{m.key.id_}"] if msg else [])
    body = f"    CALLS.append({tag!r})\n"
    if suspend and is_async:
        body += "    await SLEEP(0.01)\n"  # other messages are processed meanwhile
    if fails:
        body += f"    raise RuntimeError('provider {tag} failed')\n"
    if as_exc:
        body += f"    return LookupError(f\"{tag}({','.join(parts)})\")\n"  # str() of it is the same text
    else:
        body += f"    return f\"{tag}({','.join(parts)})\"\n"
    deco = ""
    if wrapped and not is_async:
        # a sync provider behind a functools.wraps decorator that makes it awaitable (an "offload to a thread" / async cache helper):
        # the callable handed to Depends is async, its __wrapped__ is not
        deco = "@OFFLOAD\n"
    # (the mirror image - an `async def` behind a plain sync decorator - is a sync callable that returns a coroutine object; what a
    #  dependency on it should receive is not something the property settles, so it is not generated)
    return f"{deco}{'async ' if is_async else ''}def {name}({', '.join(params)}):\n{body}"


def build(case: dict, rec: list, calls: list):
    from repid import Depends, MessageDependency

    DEP: dict = {}
    import functools

    def offload(fn):
        @functools.wraps(fn)
        async def inner(*a, **k):
            return fn(*a, **k)
        return inner

    def passthrough(fn):
        @functools.wraps(fn)
        def inner(*a, **k):
            return fn(*a, **k)  # (returns the coroutine of the async function it wraps)
        return inner

    ns: dict = {"Annotated": Annotated, "MessageDependency": MessageDependency, "DEP": DEP, "CALLS": calls, "REC": rec,
                "OFFLOAD": offload, "PASSTHROUGH": passthrough,
                "SLEEP": asyncio.sleep}
    cur = {}  # node id -> current provider spec
    def root(i):
        return case["nodes"][i].get("alias_of", i) if case["nodes"][i].get("alias_of") is not None else i

    fail_root = None if case["fail_node"] is None else root(case["fail_node"])
    for nd in case["nodes"]:
        if nd.get("alias_of") is not None:
            DEP[nd["id"]] = Depends(ns[f"prov{nd['alias_of']}"])  # same function, another Depends instance
            cur[nd["id"]] = dict(cur[nd["alias_of"]])
            continue
        src = provider_source(f"prov{nd['id']}", nd["tag"], nd["async"], nd["deps"], nd["msg"], fail_root == nd["id"],
                              nd.get("msg_pos", 99), nd.get("dflt", False), nd.get("suspend", False), nd.get("as_exc", False),
                              nd.get("ddflt"), nd.get("kwonly"), nd.get("wrapped", False))
        exec(compile(src, "<provider>", "exec"), ns)  # noqa: S102
        DEP[nd["id"]] = Depends(ns[f"prov{nd['id']}"])
        cur[nd["id"]] = dict(nd, fails=fail_root == nd["id"])
    params = [f"p{j}: Annotated[str, DEP[{j}]]" for j in case["actor_deps"]]
    if case["actor_msg"]:
        params.insert(min(case.get("actor_msg_pos", 99), len(params)), "m: MessageDependency")
    params.append("x: int = 0")
    names = [f"p{j}" for j in case["actor_deps"]]
    recd = ", ".join(f"{n!r}: str({n})" for n in names)
    src = (f"async def actor({', '.join(params)}):\n    REC.append({{'deps': {{{recd}}}, 'x': x"
           f"{', ' + repr('m') + ': m.key.id_' if case['actor_msg'] else ''}}})\n    return 1\n")
    exec(compile(src, "<actor>", "exec"), ns)  # noqa: S102
    for i, ov in enumerate(case["overrides"]):
        s = provider_source(f"ov{i}", ov["tag"], ov["async"], ov["deps"], ov["msg"], False, ov.get("msg_pos", 99), ov.get("dflt", False), ov.get("suspend", False),
                            False, ov.get("ddflt"), ov.get("kwonly"), ov.get("wrapped", False))
        exec(compile(s, "<override>", "exec"), ns)  # noqa: S102
    return ns, DEP, cur


def expected(cur: dict, node: int, msg_id: str) -> str:
    nd = cur[node]
    if nd.get("fails"):
        raise RuntimeError(nd["tag"])
    parts = [expected(cur, j, msg_id) for j in nd["deps"]] + ([msg_id] if nd["msg"] else [])
    return f"{nd['tag']}({','.join(parts)})"


async def _resolve(loop, case, out: Outcome):
    from repid import BasicConverter, Job, PydanticConverter, Queue, Router, Worker

    reset_globals()
    env = Env("mem", loop, case["seed"])
    conn = env.connection("c0")
    await conn.connect()
    rec: list = []
    calls: list = []
    ns, DEP, cur = build(case, rec, calls)
    router = Router()
    router.actor(ns["actor"], name="actor", queue="qd",
                 converter={"basic": BasicConverter, "pydantic": PydanticConverter}[case["converter"]])
    await Queue("qd", _connection=conn).declare()

    async def one_round(tag: str, jid0: str) -> None:
        rec.clear()
        calls.clear()
        n = case.get("concurrent", 1)
        jids = [jid0] if n == 1 else [f"{jid0}{chr(97 + i)}" for i in range(n)]
        for i, jid in enumerate(jids):
            kw = {"name": "actor", "queue": "qd", "id_": jid, "retries": case["retries"], "_connection": conn}
            if n > 1:
                kw["args"] = {"x": 100 + i}  # tells the executions apart
            elif case["payload"] is not None:
                kw["args"] = case["payload"]
            await Job(**kw).enqueue()
        w = Worker(routers=[router], messages_limit=n, tasks_limit=max(n, 2), handle_signals=[], _connection=conn)
        await asyncio.wait_for(w.run(), timeout=30.0)
        await asyncio.sleep(0.05)
        all_rec = list(rec)
        for i, jid in enumerate(jids):
            if n > 1:
                rec[:] = [r for r in all_rec if r["x"] == 100 + i]
            await judge(tag + (f" [message {jid}, {n} processed concurrently]" if n > 1 else ""), jid, n > 1, i)
        rec[:] = all_rec

    async def judge(tag: str, jid: str, multi: bool, i: int) -> None:
        places = env.probe().get(jid, [])
        try:
            exp = {f"p{j}": expected(cur, j, jid) for j in case["actor_deps"]}
            fails = False
        except RuntimeError:
            exp, fails = None, True
        if fails:
            if rec:
                out.v("ran-despite-provider-failure", f"{tag}: a provider raised but the actor body ran with {rec[0]}")
            want = "delayed" if case["retries"] > 0 else "dead"
            kinds = [p.kind for p in places]
            if kinds != [want]:
                out.v("provider-failure-disposition", f"{tag}: provider failed (retries={case['retries']}): message should be {want}, "
                      f"found {kinds}")
            elif want == "delayed" and places[0].params is not None and places[0].params.retries.already_tried != 1:
                out.v("provider-failure-disposition", f"{tag}: retry counter {places[0].params.retries.already_tried}, expected 1")
            return
        if len(rec) != 1:
            out.v("not-executed", f"{tag}: actor ran {len(rec)} times; places {[p.short() for p in places]}")
            return
        r = rec[0]
        if r["deps"] != exp:
            out.v("wrong-dependency-value", f"{tag}: actor received {r['deps']}, expected {exp}")
        if r["x"] != (100 + i if multi else (case["payload"] or {}).get("x", 0)):
            out.v("payload-next-to-dependencies", f"{tag}: payload argument x={r['x']}, payload {case['payload']}")
        if case["actor_msg"] and r.get("m") != jid:
            out.v("message-dependency", f"{tag}: message dependency belongs to {r.get('m')}, expected {jid}")
        if places:
            out.v("not-acked", f"{tag}: message left in {[p.short() for p in places]}")

    await one_round("initial graph", "job0")
    for i, ov in enumerate(case["overrides"]):
        try:
            DEP[ov["node"]].override(ns[f"ov{i}"])
        except Exception as e:  # noqa: BLE001
            # (the new provider only depends on earlier nodes: the graph stays acyclic and every declaration in it is a supported one)
            out.v("override-refused", f"override {i + 1} of n{ov['node']} with a supported provider (dependencies {ov['deps']}, acyclic) "
                  f"raised {type(e).__name__}: {e}")
            return
        cur[ov["node"]] = dict(id=ov["node"], deps=ov["deps"], msg=ov["msg"], tag=ov["tag"], fails=False)
        await one_round(f"after override {i + 1} of n{ov['node']}", f"job{i + 1}")


def run_resolve(case: dict) -> Outcome:
    out = Outcome()
    try:
        vclock.run(lambda loop: _resolve(loop, case, out), max_steps=400_000)
    except (vclock.StepLimit, vclock.Deadlock, asyncio.TimeoutError) as e:
        out.v("worker-hang", f"worker did not process the job: {e!r}")
    nodes = case["nodes"]
    used = {}
    for nd in nodes:
        for j in nd["deps"]:
            used[j] = used.get(j, 0) + 1
    for j in case["actor_deps"]:
        used[j] = used.get(j, 0) + 1
    shared = any(v >= 2 for v in used.values())
    deep = any(nd["deps"] for nd in nodes if nd["id"] in case["actor_deps"])
    out.nontrivial = shared or deep or bool(case["overrides"])
    out.cls("shared-node" if shared else "no-shared", "depth>=2" if deep else "depth-1",
            f"overrides-{len(case['overrides'])}", "failing-provider" if case["fail_node"] is not None else "no-failure",
            "conv-" + case["converter"], "sync-provider" if any(not nd["async"] for nd in nodes) else "all-async")
    return out


# ----------------------------------------------------------------------------- invalid declarations


@st.composite
def invalid_case(draw):
    return {"kind": draw(st.sampled_from(["posonly-dep-in-actor", "posonly-dep-in-provider", "provider-required-arg",
                                          "provider-var-args", "provider-var-kwargs", "valid-control"])),
            "converter": draw(st.sampled_from(["basic", "pydantic"])), "async": draw(st.booleans())}


def run_invalid(case: dict) -> Outcome:
    from repid import BasicConverter, Depends, MessageDependency, PydanticConverter, Router

    out = Outcome()
    out.nontrivial = case["kind"] != "valid-control"
    out.cls(case["kind"])
    a = "async " if case["async"] else ""
    ns: dict = {"Annotated": Annotated, "MessageDependency": MessageDependency, "Depends": Depends}
    exec(f"{a}def leaf() -> str:\n    return 'leaf'\n", ns)  # noqa: S102
    ns["LEAF"] = Depends(ns["leaf"])
    conv = {"basic": BasicConverter, "pydantic": PydanticConverter}[case["converter"]]
    k = case["kind"]
    raised = None
    try:
        if k == "posonly-dep-in-actor":
            exec("async def actor(d: Annotated[str, LEAF], /, x: int = 0):\n    return 1\n", ns)  # noqa: S102
            Router().actor(ns["actor"], converter=conv)
        elif k == "posonly-dep-in-provider":
            exec(f"{a}def prov(d: Annotated[str, LEAF], /):\n    return d\n", ns)  # noqa: S102
            Depends(ns["prov"])
        elif k == "provider-required-arg":
            exec(f"{a}def prov(required):\n    return required\n", ns)  # noqa: S102
            Depends(ns["prov"])
        elif k == "provider-var-args":
            exec(f"{a}def prov(*args):\n    return 1\n", ns)  # noqa: S102
            Depends(ns["prov"])
        elif k == "provider-var-kwargs":
            exec(f"{a}def prov(**kwargs):\n    return 1\n", ns)  # noqa: S102
            Depends(ns["prov"])
        else:
            exec(f"{a}def prov(d: Annotated[str, LEAF], flag: bool = False):\n    return d\n", ns)  # noqa: S102
            ns["P"] = Depends(ns["prov"])
            exec("async def actor(d: Annotated[str, P], m: MessageDependency, x: int = 0):\n    return 1\n", ns)  # noqa: S102
            Router().actor(ns["actor"], converter=conv)
    except ValueError as e:
        raised = e
    except Exception as e:  # noqa: BLE001
        out.v("declaration-wrong-exception", f"{k}: raised {type(e).__name__}: {e}")
        return out
    if k == "valid-control":
        if raised is not None:
            out.v("valid-declaration-rejected", f"a supported declaration was rejected: {raised}")
    elif raised is None:
        out.v("invalid-declaration-accepted", f"{k} was accepted at declaration time (converter {case['converter']})", kind=k)
    return out


CHECK = Check(
    pid="C18",
    level="exploration",
    rule=(
        "Random dependency DAGs of 1-7 providers generated as source (depth <=4, fan-out <=3, shared nodes, sync/async mix, optional "
        "MessageDependency leaves), each returning a tag built from its id and its resolved inputs; the actor takes 1-3 nodes, "
        "optionally the message dependency, next to a payload parameter; 0-2 overrides replace a node's provider (other tag, other "
        "sub-dependencies) with a job processed after each; one provider may fail; Basic and Pydantic converters; real Worker on the "
        "in-memory broker. Oracle: recursive evaluator over the *current* graph gives the value of every dependency parameter; a failing "
        "provider => body not run, message retried (counter 1) or dead-lettered; invalid declarations (positional-only dependency, "
        "provider with a required plain parameter, *args, **kwargs) raise ValueError at declaration. Non-trivial = shared node, depth "
        ">=2 or an override."
    ),
    assumptions=["sync providers run in real threads; the oracle does not depend on their relative order", "provider call counts are not constrained (no caching is promised)"],
    subchecks=[
        SubCheck("resolve", graph_case, run_resolve, quick=150, thorough=4000),
        SubCheck("invalid", invalid_case, run_invalid, quick=30, thorough=300),
    ],
)
