"""C16 — Message handles are single-use and respect their category."""
from __future__ import annotations

import asyncio
import json
from datetime import timedelta

from hypothesis import strategies as st

from harness import gen, scenario, vclock
from harness.brokers import Env, Spy, reset_globals
from harness.core import Check, Outcome, SubCheck
from harness.scenario import _params_of

ACTIONS = ["ack", "nack", "reject", "reschedule", "retry", "force_retry"]


@st.composite
def handle_case(draw, broker):
    cat = draw(st.sampled_from(["NORMAL", "NORMAL", "DELAYED", "DEAD"]))
    msgs = []
    for i in range(draw(st.integers(1, 4))):
        mx = draw(st.integers(0, 3))
        msgs.append({"id": f"h{i}", "max": mx, "tried": draw(st.integers(0, mx + 1)),
                     "defer_by": draw(st.sampled_from([None, None, 2.0])),
                     # [action, next_retry, fault]: with `fault` the broker call behind the action fails once (connection error)
                     "actions": draw(st.lists(st.tuples(st.sampled_from(ACTIONS), st.sampled_from([None, 0.0, 1.5]),
                                                        st.sampled_from([False, False, False, False, True])).map(list),
                                              min_size=1, max_size=6))})
    return {"broker": broker, "seed": draw(st.integers(0, 999)), "category": cat, "msgs": msgs,
            # the level the host application gave the "repid" logger (at DEBUG every log line of the library gets formatted)
            "log": draw(st.sampled_from([None, None, None, "DEBUG"]))}


async def _handles(loop, case, out: Outcome):
    from repid import MessageCategory, Queue
    from repid.data._key import RoutingKey
    from repid.data._parameters import DelayProperties, Parameters, RetriesProperties

    reset_globals(case.get("log"))
    env = Env(case["broker"], loop, case["seed"])
    spy = Spy(loop)
    conn = env.connection("c0", None, buckets=False, spy=spy)
    await conn.connect()
    raw = conn.message_broker
    await raw.queue_declare("qh")
    # one-shot broker fault: the next ack / nack / reject / requeue of the real broker raises before it does anything
    fault = {"armed": False}
    real = object.__getattribute__(raw, "_real")
    for opn in ("ack", "nack", "reject", "requeue"):
        def mk(orig):
            async def call(*a, **k):
                if fault["armed"]:
                    fault["armed"] = False
                    raise ConnectionError("broker unreachable")
                return await orig(*a, **k)
            return call
        setattr(real, opn, mk(getattr(real, opn)))
    cat = case["category"]
    specs = {}
    for m in case["msgs"]:
        delay = DelayProperties(defer_by=None if m["defer_by"] is None else timedelta(seconds=m["defer_by"]))
        if cat == "DELAYED":
            delay = DelayProperties(defer_by=delay.defer_by, next_execution_time=vclock.VDateTime.now() + timedelta(hours=1))
        params = Parameters(retries=RetriesProperties(max_amount=m["max"], already_tried=m["tried"]), delay=delay)
        if cat != "DELAYED" and m["defer_by"] is not None:
            # a recurring message waiting in the normal queue: give it an (already due) slot
            params = Parameters(retries=params.retries, delay=DelayProperties(defer_by=delay.defer_by,
                                next_execution_time=vclock.VDateTime.now() - timedelta(seconds=1)))
        key = RoutingKey(topic="t0", queue="qh", priority=5, id_=m["id"])
        await raw.enqueue(key, json.dumps({"i": m["id"]}), params)
        specs[m["id"]] = (m, params)
    if cat == "DEAD":
        # move them to the dead category first
        c = raw.get_consumer("qh", None, None, MessageCategory.NORMAL)
        await c.start()
        for _ in case["msgs"]:
            k, _, _ = await asyncio.wait_for(c.consume(), timeout=3.0)
            await raw.nack(k)
        await c.finish()
    await asyncio.sleep(1.5 if case["broker"] == "mem" and cat != "DEAD" else 0.2)
    spy.events.clear()
    seen = 0
    q = Queue("qh", _connection=conn)
    agen = q.get_messages(category=MessageCategory(cat))
    try:
        while seen < len(case["msgs"]):
            try:
                msg = await asyncio.wait_for(agen.__anext__(), timeout=3.0)
            except (asyncio.TimeoutError, StopAsyncIteration):
                out.v("handle-not-delivered", f"only {seen} of {len(case['msgs'])} {cat} messages could be iterated")
                break
            seen += 1
            m, params = specs[msg.key.id_]
            if msg.category != MessageCategory(cat):
                out.v("handle-category", f"message from the {cat} category reports category {msg.category}")
            usable = True
            tried = msg.parameters.retries.already_tried
            for act, nr, *rest in m["actions"]:
                faulty = bool(rest and rest[0])
                before = len(spy.events)
                kw = {}
                if act in ("retry", "force_retry") and nr is not None:
                    kw["next_retry"] = timedelta(seconds=nr)
                t_call = loop.time()
                params_before = msg.parameters
                fault["armed"] = faulty
                try:
                    await getattr(msg, act)(**kw)
                    raised = None
                except ValueError as e:
                    raised = e
                except ConnectionError as e:
                    raised = e
                except Exception as e:  # noqa: BLE001
                    out.v("handle-wrong-exception", f"{act} on a {cat} handle raised {type(e).__name__}: {e}")
                    raised = e
                broker_failed = faulty and not fault["armed"]
                fault["armed"] = False
                calls = spy.events[before:]
                tag = f"{act} on {cat} handle {msg.key.id_} (tried {tried}/{m['max']}, usable={usable})"
                refused_cat = act in ("nack", "retry", "force_retry") and cat != "NORMAL"
                refused_budget = act == "retry" and tried >= m["max"]
                if broker_failed:
                    # the broker call behind an accepted action failed: the action did not succeed, so the handle is as it was -
                    # usable, same retry state - and the caller saw the error
                    out.cls("broker-call-failed")
                    if not isinstance(raised, ConnectionError):
                        out.v("broker-error-swallowed", f"{tag}: the broker call failed but the action returned {raised!r}")
                    if msg.read_only:
                        out.v("failed-action-consumed-handle", f"{tag}: the broker call failed, yet the handle is read-only now")
                    # (only the retry state is judged - it decides whether later actions are accepted; the following actions of the
                    #  sequence are judged against the unchanged counter as well)
                    if msg.parameters.retries != params_before.retries:
                        out.v("failed-action-changed-handle", f"{tag}: the broker call failed, yet the handle's retry state changed from "
                              f"{params_before.retries} to {msg.parameters.retries}")
                    continue
                if isinstance(raised, ConnectionError):
                    out.v("handle-wrong-exception", f"{tag}: raised {raised!r} although no broker fault was injected")
                    continue
                if not usable or refused_cat or refused_budget:
                    if raised is None:
                        why = "the handle was already used" if not usable else ("its category" if refused_cat else "the spent retry budget")
                        out.v("action-not-refused", f"{tag}: must be refused because of {why}, but it succeeded",
                              reason="used" if not usable else ("category" if refused_cat else "budget"))
                        if calls:
                            usable = False
                    if calls:
                        out.v("refused-action-touched-broker", f"{tag}: refused, yet it called {[c.op for c in calls]}")
                    if usable and msg.read_only:
                        out.v("refusal-consumed-handle", f"{tag}: a refused action made the handle read-only")
                    continue
                # accepted
                if raised is not None:
                    out.v("action-refused", f"{tag}: should be accepted but raised {raised!r}")
                    continue
                want = {"ack": "ack", "nack": "nack", "reject": "reject"}.get(act, "requeue")
                if [c.op for c in calls] != [want]:
                    out.v("wrong-broker-call", f"{tag}: expected exactly one {want}, got {[c.op for c in calls]}")
                elif want == "requeue":
                    p = _params_of(calls[0])
                    if act == "reschedule":
                        if p.retries.already_tried != 0:
                            out.v("reschedule-params", f"{tag}: already_tried={p.retries.already_tried}")
                    else:
                        exp_t = vclock.at(t_call) + timedelta(seconds=nr or 0.0)
                        if p.retries.already_tried != tried + 1 or p.delay.next_execution_time is None or \
                                abs((p.delay.next_execution_time - exp_t).total_seconds()) > 2e-6:
                            out.v("retry-params", f"{tag}: requeued with already_tried={p.retries.already_tried}, "
                                  f"next_execution_time={p.delay.next_execution_time}; expected {tried + 1}, {exp_t}")
                usable = False
                if not msg.read_only:
                    out.v("handle-still-writable", f"{tag}: succeeded but the handle does not report read_only")
    finally:
        await agen.aclose()
    seqs = [a[0] for m in case["msgs"] for a in m["actions"]]
    out.nontrivial = any(len(m["actions"]) >= 2 for m in case["msgs"])
    out.cls("broker-" + case["broker"], "category-" + cat)


def run_handles(case: dict) -> Outcome:
    out = Outcome()
    try:
        vclock.run(lambda loop: _handles(loop, case, out), max_steps=400_000)
    except (vclock.StepLimit, vclock.Deadlock) as e:
        out.inconclusive = True
        out.info["watchdog"] = str(e)
    return out


# ----------------------------------------------------------------------------- actor programmes


@st.composite
def program_case(draw):
    prog = []
    n_cb = 0
    for _ in range(draw(st.integers(0, 6))):
        k = draw(st.sampled_from(["cb", "cb", "result", "exception", "try_retry"]))
        if k == "cb":
            prog.append(["cb", n_cb, draw(st.sampled_from(["sync", "async"]))])
            n_cb += 1
        elif k == "result":
            prog.append(["result", draw(gen.json_value)])
        elif k == "exception":
            prog.append(["exception", draw(st.sampled_from(gen.EXC_NAMES)), draw(gen.EXC_TEXT)])
        else:
            prog.append(["try_retry"])
    action = draw(st.sampled_from(["ack", "nack", "reject", "reschedule", "force_retry"]))
    job = {"id": "p0", "actor": "a_plain", "queue": "q0", "retries": 0, "store_result": True,
           "attempts": [{"k": "eager", "action": action, "program": prog, "sleep": 0.0, "guard": draw(st.sampled_from([False, False, True]))},
                        {"k": "ret", "v": None, "sleep": 0.0}]}
    if draw(st.integers(0, 2)) == 0:
        # in a `finally:` the actor tries a second terminal action on the handle it has just used
        job["attempts"][0]["then"] = draw(st.sampled_from(["ack", "nack", "reject", "reschedule", "retry", "force_retry"]))
    if action == "reschedule" and draw(st.booleans()):
        job["defer_by"] = 5.0
        job["iterations"] = 1
    return {"broker": "mem", "seed": draw(st.integers(0, 999)), "converter": draw(st.sampled_from(["basic", "pydantic"])),
            "actors": [{"name": "a_plain", "queue": "q0", "shape": "plain"}], "policy": {"kind": "table", "values": [30.0]},
            "worker": {"tasks_limit": 1}, "jobs": [job], "horizon": 8.0, "stop": "signal",
            "log": draw(st.sampled_from([None, None, None, "DEBUG"]))}


@st.composite
def dep_eager_case(draw):
    """The eager response is given by a dependency of the actor (a guard that settles the message itself)."""
    action = draw(st.sampled_from(gen.EAGER_ACTIONS))
    retries = draw(st.integers(0, 2))
    nested = draw(st.booleans())  # the dependency that answers is a dependency of the actor's dependency
    actor = {"name": "a_dep2", "queue": "q0", "shape": "dep2"} if nested else {"name": "a_dep", "queue": "q1", "shape": "dep"}
    job = {"id": "p0", "actor": actor["name"], "queue": actor["queue"], "retries": retries, "store_result": draw(st.booleans()),
           "attempts": [{"k": "depeager", "action": action, "program": [], "sleep": 0.0},
                        draw(st.sampled_from([{"k": "ret", "v": 1, "sleep": 0.0}, {"k": "depeager", "action": "ack", "program": [], "sleep": 0.0}]))]}
    if draw(st.integers(0, 2)) == 0:
        job["attempts"].insert(0, {"k": "raise", "exc": "ValueError", "text": "x", "sleep": 0.0})  # a retried delivery first
    return gen.finalize({"broker": draw(st.sampled_from(["mem", "mem", "redis", "amqp"])), "seed": draw(st.integers(0, 999)),
                         "converter": draw(st.sampled_from(["basic", "pydantic"])),
                         "actors": [actor], "policy": {"kind": "table", "values": [0.2]},
                         "worker": {"tasks_limit": 1}, "jobs": [job], "log": draw(st.sampled_from([None, None, None, "DEBUG"]))})


def run_dep_eager(case: dict) -> Outcome:
    from harness.checks.c02 import check_dispositions

    out = Outcome()
    try:
        tr = scenario.run_case(case)
    except (vclock.StepLimit, vclock.Deadlock) as e:
        out.inconclusive = True
        out.info["watchdog"] = str(e)
        return out
    # exactly the one terminal action the dependency asked for, the actor body never entered, nothing reported on top of it
    check_dispositions(out, tr, case)
    out.nontrivial = any(e.actor == "provider" and e.end == "dep-eager" for e in tr.execs)
    out.cls("broker-" + case["broker"], "action-" + next(a["action"] for a in case["jobs"][0]["attempts"] if a["k"] == "depeager"))
    return out


def run_program(case: dict) -> Outcome:
    out = Outcome()
    job = case["jobs"][0]
    prog = job["attempts"][0]["program"]

    def settled(tr):
        return len(tr.execs) >= 1 and tr.execs[0].end != "running" and tr.env.loop.time() > 0.3

    try:
        tr = scenario.run_case(case, settled=settled)
    except (vclock.StepLimit, vclock.Deadlock) as e:
        out.inconclusive = True
        out.info["watchdog"] = str(e)
        return out
    if tr.run_error is not None:
        out.v("worker-died", f"Worker.run() raised {tr.run_error!r}")
    ex = tr.execs_of("p0")
    if not ex:
        out.v("not-executed", "actor never ran")
        return out
    e0 = ex[0]
    if e0.after_eager_marker:
        out.v("ran-after-eager", "the actor body continued after the eager response")
    second = [c for c in e0.callbacks if c[0].startswith("second-action")]
    if any(c[0] == "second-action-accepted" for c in second):
        out.v("action-after-eager-accepted", f"after the eager {job['attempts'][0]['action']} a second action "
              f"({job['attempts'][0].get('then')}) on the same handle was accepted (single-use handle)")
    if second:
        terminal = [ev for ev in tr.spy.for_id("p0", ("ack", "nack", "reject", "requeue")) if ev.step <= (ex[1].step0 if len(ex) > 1 else 10**12)]
        if len(terminal) > 1:
            out.v("second-broker-call", f"the first delivery caused {[ev.op for ev in terminal]}: exactly one terminal action may reach the broker")
        out.cls("second-action-attempted")
    # expected order: callbacks in registration order, the result store at the position of the latest set_* call
    expected = []
    last_set = None
    for st_ in prog:
        if st_[0] == "cb":
            expected.append(("cb", st_[1]))
        elif st_[0] in ("result", "exception"):
            last_set = st_
    if last_set is not None:
        pos = 0
        seen_last = False
        # position = number of callbacks registered before the latest set_* call
        for st_ in prog:
            if st_ is last_set:
                break
            if st_[0] == "cb":
                pos += 1
        expected.insert(pos, ("store", None))
    observed = [(c[0], c[1], c[2]) for c in e0.callbacks if c[0] == "cb"]
    cut = ex[1].step0 if len(ex) > 1 else 10**12  # only what the first delivery caused
    stores = [ev for ev in tr.spy.events if ev.op == "store_bucket" and ev.step <= cut
              and (ev.args[0] if ev.args else ev.kwargs.get("id_")) == "r-p0"]
    merged = sorted([(s, "cb", t) for (_, t, s) in observed] + [(ev.seq, "store", None) for ev in stores])
    got = [(k, t) for (_, k, t) in merged]
    if got != expected:
        out.v("callback-order", f"programme {prog}: callbacks/result store ran as {got}, expected {expected}")
    if last_set is not None and len(stores) == 1:
        payload = stores[0].kwargs.get("payload") if "payload" in stores[0].kwargs else (stores[0].args[1] if len(stores[0].args) > 1 else None)
        if payload is not None:
            if last_set[0] == "result":
                if not payload.success or json.loads(payload.data) != last_set[1]:
                    out.v("stored-latest", f"programme {prog}: stored {payload}, expected the latest set_result value {last_set[1]!r}")
            else:
                if payload.success or payload.exception != last_set[1]:
                    out.v("stored-latest", f"programme {prog}: stored {payload}, expected the latest set_exception {last_set[1]}")
    # exactly one terminal call, made by the eager action; refused retry left nothing
    terms = tr.spy.for_id("p0", ("ack", "nack", "reject", "requeue"))
    first_window = [t for t in terms if t.seq <= (max([c[2] for c in e0.callbacks] + [s.seq for s in stores] + [0]) or 10**9)]
    want = {"ack": "ack", "nack": "nack", "reject": "reject"}.get(job["attempts"][0]["action"], "requeue")
    if not terms or terms[0].op != want:
        out.v("eager-disposition", f"eager {job['attempts'][0]['action']} caused {[t.op for t in terms]}")
    n_first_exec = [t for t in terms if t.step <= (ex[1].step0 if len(ex) > 1 else 10**12)]
    if len(n_first_exec) != 1:
        out.v("eager-extra-disposition", f"first delivery caused {[t.op for t in n_first_exec]} (expected exactly one {want})")
    refused = [c for c in e0.callbacks if c[0] == "retry-refused"]
    if len(refused) != sum(1 for s in prog if s[0] == "try_retry"):
        out.v("retry-not-refused", f"retry() with a spent budget was refused {len(refused)} times, programme {prog}")
    n_sets = sum(1 for s in prog if s[0] in ("result", "exception"))
    out.nontrivial = n_sets >= 2 or (bool(refused) and True)
    out.cls("sets-" + str(min(n_sets, 3)), "action-" + job["attempts"][0]["action"], "with-refused-retry" if refused else "no-refusal")
    return out


def _h(b):
    return lambda: handle_case(b)


CHECK = Check(
    pid="C16",
    level="exploration",
    rule=(
        "(1) Handles obtained by iterating Queue.get_messages for each category (NORMAL/DELAYED/DEAD) and retry state (already_tried "
        "0..max+1), then a generated sequence of 1-6 message-API calls (ack, nack, reject, reschedule, retry, force_retry, with and "
        "without next_retry) per handle; three brokers. Model per handle: refusal by category or spent budget => ValueError, no "
        "broker call at the connection boundary, handle still usable; first accepted action => exactly one broker call of the right "
        "kind and parameters; every later action refused without a broker call. (2) Actor programmes: generated lists of "
        "add_callback (sync/async), set_result, set_exception, refused retry(), then an eager action and a marker statement: callbacks "
        "run in registration order with the single result store at the position of the latest set_* call carrying that value; marker "
        "never runs; exactly one terminal call. Non-trivial = >=2 actions on a handle / >=2 set_* calls or a refused retry."
    ),
    assumptions=["virtual clock; Redis and RabbitMQ are in-process server models"],
    subchecks=[
        SubCheck("handles-mem", _h("mem"), run_handles, quick=60, thorough=2000),
        SubCheck("handles-redis", _h("redis"), run_handles, quick=40, thorough=1500),
        SubCheck("handles-amqp", _h("amqp"), run_handles, quick=40, thorough=1500),
        SubCheck("programs", program_case, run_program, quick=60, thorough=2500),
        SubCheck("dependency-eager", dep_eager_case, run_dep_eager, quick=25, thorough=800),
    ],
)
