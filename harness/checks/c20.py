"""C20 — The health endpoint tells the truth and cannot be knocked over.

(i)  protocol level: `_HttpServerProtocol` with a recording transport, byte strings from a grammar + mutations, 1-5 chunks
     (Hypothesis; the same test body is the atheris fuzz target in the thorough tier via `fuzz_one_input`).
(ii) socket level: a real Worker with the health server on 127.0.0.1 on a real (not virtual) event loop.
"""
# NOTE: no `from __future__ import annotations` (actors carry real annotations)
import asyncio
import re
import socket
import time
from typing import Any

from hypothesis import strategies as st

from harness.brokers import reset_globals
from harness.core import Check, Outcome, SubCheck

ENDPOINT = st.text("abcXYZ019._~/-", max_size=12).map(lambda s: "/" + s)
METHODS = ["GET", "GET", "GET", "HEAD", "POST", "PUT", "get", "G"]
RESP = re.compile(rb"^HTTP/1\.1 (\d{3}) ([A-Za-z ]+)\r\n((?:[^\r\n]+\r\n)*)\r\n(.*)$", re.S)


@st.composite
def request_bytes(draw, endpoint: str):
    kind = draw(st.sampled_from(["valid", "valid", "other-path", "other-method", "truncated", "binary", "oversize", "garbage", "two-requests",
                                 "no-version", "bare-lf", "long-target"]))
    path = endpoint
    method = "GET"
    if kind == "long-target":
        # a long request target (tens to thousands of characters, one segment or many), then handled like any other request
        # line: complete, cut short, or without a version.  Whatever the bytes, answering (or dropping) them takes no time to speak of
        seg = draw(st.sampled_from(["a", "a", "ab", "%41", "a.", "é"])) * draw(st.sampled_from([12, 24, 30, 48, 64, 300, 5000]))
        path = "/" + (seg if draw(st.booleans()) else "/".join([seg[: max(1, len(seg) // 4)]] * 4)) + draw(st.sampled_from(["", "", "/", "?q=" + "1" * 40]))
        kind = draw(st.sampled_from(["long-target", "truncated", "no-version", "bare-lf"]))
    if kind == "other-path":
        path = draw(st.one_of(ENDPOINT, st.just(endpoint + "x"), st.just(endpoint[:-1] or "/zz"), st.just(endpoint + "/"),
                              st.just(endpoint.upper() if endpoint.upper() != endpoint else endpoint + "Q")))
        if path == endpoint:
            kind = "valid"
    if kind == "other-method":
        method = draw(st.sampled_from(METHODS[3:]))
    version = draw(st.sampled_from(["HTTP/1.1", "HTTP/1.0", "HTTP/2"]))
    headers = draw(st.lists(st.sampled_from(["Host: localhost", "User-Agent: kube-probe/1.27", "Accept: */*", "Connection: close",
                                             "X-Long: " + "a" * 300]), max_size=4))
    req = f"{method} {path} {version}\r\n" + "".join(h + "\r\n" for h in headers) + "\r\n"
    data = req.encode()
    if kind == "truncated":
        data = data[: draw(st.integers(0, max(0, len(data) - 1)))]
    elif kind == "binary":
        pos = draw(st.integers(0, len(data)))
        data = data[:pos] + draw(st.binary(min_size=1, max_size=40)) + data[pos:]
    elif kind == "oversize":
        data = data[:-2] + b"X-Pad: " + b"p" * draw(st.sampled_from([10_000, 100_000, 1_000_000])) + b"\r\n\r\n"
    elif kind == "garbage":
        data = draw(st.binary(max_size=200))
    elif kind == "two-requests":
        data = data + data
    elif kind == "no-version":
        data = f"{method} {path}\r\n\r\n".encode()
    elif kind == "bare-lf":
        data = req.replace("\r\n", "\n").encode()
    well_formed = kind in ("valid", "other-path", "other-method", "oversize", "two-requests")
    return {"kind": kind, "hex": data.hex(), "well_formed": well_formed, "method": method, "path": path}


@st.composite
def proto_case(draw):
    endpoint = draw(st.one_of(st.just("/healthz"), ENDPOINT))
    req = draw(request_bytes(endpoint))
    n = len(req["hex"]) // 2
    cuts = sorted(draw(st.lists(st.integers(0, n), max_size=4)))
    case = {"endpoint": endpoint, "status": draw(st.sampled_from([200, 503])), "req": req, "cuts": cuts}
    if cuts and case["status"] == 200 and draw(st.booleans()):
        # a consumer fails while the request is still arriving: before chunk number `flip` the status turns 503 (it never turns back)
        case["flip"] = draw(st.integers(1, len(cuts)))
    return case


CPU_BUDGET_S = 2.0


class _CpuBudgetExceeded(BaseException):
    pass


class _cpu_budget:
    """Raises _CpuBudgetExceeded in the main thread once the process has used `seconds` of CPU time inside the block."""

    def __init__(self, seconds: float) -> None:
        self.seconds = seconds

    def __enter__(self) -> None:
        import signal
        import threading

        self.on = threading.current_thread() is threading.main_thread()
        if self.on:
            def fire(*_a: Any) -> None:
                raise _CpuBudgetExceeded()

            self.prev = signal.signal(signal.SIGVTALRM, fire)
            signal.setitimer(signal.ITIMER_VIRTUAL, self.seconds)

    def __exit__(self, *_a: Any) -> None:
        import signal

        if self.on:
            signal.setitimer(signal.ITIMER_VIRTUAL, 0)
            signal.signal(signal.SIGVTALRM, self.prev)


class RecTransport:
    def __init__(self) -> None:
        self.written = b""
        self.closed = False

    def write(self, data: bytes) -> None:
        if self.closed:
            raise AssertionError("write after close")
        self.written += bytes(data)

    def close(self) -> None:
        self.closed = True

    def is_closing(self) -> bool:
        return self.closed

    def get_extra_info(self, *_a: Any, **_k: Any) -> Any:
        return None


def parse_response(raw: bytes):
    m = RESP.match(raw)
    if not m:
        return None
    code, reason, headers, body = int(m.group(1)), m.group(2), m.group(3), m.group(4)
    hd = {}
    for line in headers.decode("latin1").split("\r\n"):
        if line:
            k, _, v = line.partition(":")
            hd[k.strip().lower()] = v.strip()
    return code, reason, hd, body


def run_proto(case: dict) -> Outcome:
    from repid.health_check_server import HealthCheckStatus, _HttpServerProtocol

    out = Outcome()
    data = bytes.fromhex(case["req"]["hex"])
    status = HealthCheckStatus(case["status"])
    cur = {"status": status}
    try:
        proto = _HttpServerProtocol(endpoint_name=case["endpoint"], status=status)
    except TypeError:
        # after the D17 repair the protocol reads the status when it answers
        proto = _HttpServerProtocol(endpoint_name=case["endpoint"], get_status=lambda: cur["status"])
    tr = RecTransport()
    proto.connection_made(tr)  # type: ignore[arg-type]
    cuts = [0] + [c for c in case["cuts"] if 0 < c < len(data)] + [len(data)]
    chunks = [data[a:b] for a, b in zip(cuts, cuts[1:]) if b > a] or [data]
    closed_by_error = False
    # data_received runs on the worker's event loop: while it computes, nothing else does.  The budget is CPU time of this
    # process (not wall-clock time, so a loaded machine does not matter): a request of at most ~1 MB is answered in
    # milliseconds; two seconds of computing is four orders of magnitude away from that.
    t0 = time.process_time()
    with _cpu_budget(CPU_BUDGET_S):
        for ci, ch in enumerate(chunks):
            if tr.closed:
                break
            if case.get("flip") is not None and ci == case["flip"]:
                cur["status"] = HealthCheckStatus(503)
            nwritten = len(tr.written)
            try:
                proto.data_received(ch)
                if len(tr.written) > nwritten and "answered_under" not in cur:
                    cur["answered_under"] = int(cur["status"])  # the health status in force when the answer was written
                    cur["answered_at"] = ci
            except Exception:  # noqa: BLE001  asyncio closes *this* connection on an Exception from data_received
                closed_by_error = True
                break
            except _CpuBudgetExceeded:
                out.v("protocol-blocks-loop", f"data_received was still computing after {CPU_BUDGET_S:.0f} s of CPU time on a {len(ch)}-byte "
                      f"chunk {ch[:60]!r}: the worker's event loop is blocked for that long", nbytes=len(data))
                return out
            except BaseException as e:  # noqa: BLE001
                out.v("protocol-base-exception", f"data_received raised {type(e).__name__} for {data[:80]!r}")
                return out
    if time.process_time() - t0 > CPU_BUDGET_S / 2:
        out.v("protocol-blocks-loop", f"data_received computed for {time.process_time() - t0:.1f}s on {len(data)} bytes "
              f"({data[:60]!r}): the worker's event loop is blocked for that long", nbytes=len(data))
    one_chunk = len(chunks) == 1
    if tr.written:
        p = parse_response(tr.written)
        if p is None:
            out.v("malformed-response", f"response {tr.written[:120]!r} is not a well-formed HTTP response (request {data[:60]!r})")
        else:
            code, reason, hd, body = p
            if hd.get("content-length") != str(len(body)):
                out.v("content-length", f"Content-Length {hd.get('content-length')} but body has {len(body)} bytes")
            if code not in (200, 503, 404):
                out.v("status-code", f"unexpected status {code}")
            first = chunks[0]
            # (the pinned server looks at each chunk on its own; one that reassembles a request arriving in several chunks is as
            #  right - what was received up to the answer counts as the request, too)
            upto = b"".join(chunks[: cur.get("answered_at", 0) + 1])
            is_endpoint_get = any(r.startswith(f"GET {case['endpoint']} ".encode()) and b"\r\n\r\n" in r for r in (first, upto))
            if code in (200, 503):
                if not is_endpoint_get:
                    out.v("status-for-other-request", f"request {first[:60]!r} is not GET {case['endpoint']} but was answered {code}")
                elif code != cur.get("answered_under", case["status"]):
                    out.v("wrong-health-status", f"health status was {cur.get('answered_under', case['status'])} when the answer was written, "
                          f"but the endpoint answered {code}", flipped=case.get("flip") is not None)
            elif code == 404 and is_endpoint_get:
                out.v("endpoint-404", f"GET {case['endpoint']} answered 404")
            if not tr.closed:
                out.v("connection-left-open", "response written but the connection was not closed")
    elif one_chunk and case["req"]["well_formed"] and not closed_by_error:
        out.v("no-response", f"well-formed request {data[:60]!r} got no response")
    if one_chunk and case["req"]["well_formed"] and closed_by_error:
        out.v("well-formed-request-crashed", f"well-formed request {data[:60]!r} made data_received raise")
    out.nontrivial = not (case["req"]["kind"] == "valid" and one_chunk)
    out.cls("kind-" + case["req"]["kind"], "chunks-" + str(min(len(chunks), 3)), "closed-by-error" if closed_by_error else "answered" if tr.written else "silent")
    return out


# ----------------------------------------------------------------------------------------- socket level


@st.composite
def sock_case(draw):
    endpoint = draw(st.one_of(st.just("/healthz"), ENDPOINT))
    steps = []
    for _ in range(draw(st.integers(2, 8))):
        k = draw(st.sampled_from(["probe", "probe", "bad", "bad", "fail-consumer", "open-early", "many", "job", "silent"]))
        if k == "bad":
            steps.append({"k": "bad", "req": draw(request_bytes(endpoint)), "cuts": sorted(draw(st.lists(st.integers(0, 400), max_size=3)))})
        elif k == "probe":
            steps.append({"k": "probe", "what": draw(st.sampled_from(["endpoint", "endpoint", "other-path", "post"]))})
        elif k == "many":
            steps.append({"k": "many", "n": draw(st.integers(5, 40))})
        elif k == "silent":
            # connections that are opened and closed without a single byte (port scanners, TCP health probes) - many of them
            steps.append({"k": "silent", "n": draw(st.sampled_from([3, 130, 300]))})
        else:
            steps.append({"k": k})
    steps.append({"k": "probe", "what": "endpoint"})
    # how "a consumer failed" comes about: a consumer whose consume() raises (in-memory), or RabbitMQ cancelling the
    # consumer server-side because its queue was deleted, so that the consumer's restart is refused
    return {"endpoint": endpoint, "steps": steps, "slow_stop": draw(st.booleans()),
            "backend": draw(st.sampled_from(["mem", "mem", "amqp-queue-deleted"])), "idle_worker": draw(st.integers(0, 3)) == 0,
            # a client that connected to the health port and has not sent anything yet when the worker is told to stop
            "idle_conn_at_stop": draw(st.booleans())}


def free_port() -> int:
    s = socket.socket()
    s.bind(("127.0.0.1", 0))
    p = s.getsockname()[1]
    s.close()
    return p


async def http(port: int, data: bytes, cuts=(), timeout: float = 3.0, reader_writer=None):
    """-> (status code | None, raw) ; raises asyncio.TimeoutError / OSError"""
    if reader_writer is None:
        r, w = await asyncio.wait_for(asyncio.open_connection("127.0.0.1", port), timeout)
    else:
        r, w = reader_writer
    cs = [0] + [c for c in cuts if 0 < c < len(data)] + [len(data)]
    for a, b in zip(cs, cs[1:]):
        if b > a:
            w.write(data[a:b])
            try:
                await asyncio.wait_for(w.drain(), timeout)
            except (ConnectionError, OSError):
                break
            if len(cs) > 2:
                await asyncio.sleep(0.01)
    try:
        if w.can_write_eof():
            w.write_eof()
    except (OSError, RuntimeError):
        pass
    try:
        raw = await asyncio.wait_for(r.read(), timeout)
    except (ConnectionError, OSError):
        raw = b""
    w.close()
    p = parse_response(raw) if raw else None
    return (p[0] if p else None), raw


async def _sock(case: dict, out: Outcome):
    from repid import (BasicConverter, Connection, HealthCheckServerSettings, InMemoryMessageBroker, Job, MessageDependency, Queue,
                       Router, Worker)
    from repid.connections.in_memory.consumer import _InMemoryConsumer

    reset_globals()
    fail_flag = asyncio.Event()

    class FailingConsumer(_InMemoryConsumer):
        async def consume(self):  # type: ignore[override]
            if self.queue_name == "qfail":
                await fail_flag.wait()
                raise RuntimeError("consumer broke")
            return await super().consume()

    class Broker(InMemoryMessageBroker):
        CONSUMER_CLASS = FailingConsumer

    env = None
    if case.get("backend", "mem") == "amqp-queue-deleted":
        from harness.brokers import Env

        env = Env("amqp", asyncio.get_running_loop(), 0)  # the server model runs on this (real-time) loop as well
        conn = env.connection("w0", None, buckets=False)
    else:
        conn = Connection(Broker())
    await conn.connect()

    def make_consumer_fail() -> None:
        if env is not None:
            env.aserver.delete_queue("qfail")
        else:
            fail_flag.set()

    done_jobs: list = []
    router = Router()

    async def work(m: MessageDependency) -> int:
        done_jobs.append(m.key.id_)
        return 1

    async def never(m: MessageDependency) -> int:
        return 0

    slow_started = asyncio.Event()

    async def slow(m: MessageDependency) -> int:
        slow_started.set()
        await asyncio.sleep(0.5)
        done_jobs.append(m.key.id_)
        return 1

    router.actor(work, name="work", queue="qok", converter=BasicConverter)
    router.actor(slow, name="slow", queue="qslow", converter=BasicConverter)
    router.actor(never, name="never", queue="qfail", converter=BasicConverter)
    for q in ("qok", "qfail", "qslow"):
        await Queue(q, _connection=conn).declare()
    port = free_port()
    ep = case["endpoint"]
    w = Worker(routers=[router], run_health_check_server=True, graceful_shutdown_time=1.0,
               health_check_server_settings=HealthCheckServerSettings(address="127.0.0.1", port=port, endpoint_name=ep), _connection=conn)
    if case.get("idle_worker"):
        # a worker with nothing to run returns at once: its health port must not stay open behind it
        port0 = free_port()
        w0 = Worker(routers=[], run_health_check_server=True,
                    health_check_server_settings=HealthCheckServerSettings(address="127.0.0.1", port=port0, endpoint_name=ep), _connection=conn)
        try:
            await asyncio.wait_for(w0.run(), timeout=5.0)
        except asyncio.TimeoutError:
            out.v("worker-stuck", "a worker without actors did not return from run()")
        await asyncio.sleep(0.05)
        try:
            await http(port0, f"GET {ep} HTTP/1.1\r\n\r\n".encode(), timeout=1.0)
            out.v("port-open-after-run", "the health port of a worker without actors still accepts connections after run() returned")
        except (OSError, asyncio.TimeoutError):
            pass
    # closed before run()
    try:
        await http(port, f"GET {ep} HTTP/1.1\r\n\r\n".encode(), timeout=1.0)
        out.v("port-open-before-run", "the health port accepted a connection before Worker.run()")
    except (OSError, asyncio.TimeoutError):
        pass
    wt = asyncio.ensure_future(w.run())
    runner = None
    for _ in range(200):
        await asyncio.sleep(0.01)
        try:
            r, wr = await asyncio.open_connection("127.0.0.1", port)
            wr.close()
            break
        except OSError:
            continue
    else:
        out.inconclusive = True
        wt.cancel()
        return
    failed = False
    enq = 0
    early: list = []
    flips = malformed_then_ok = 0
    good = f"GET {ep} HTTP/1.1\r\nHost: x\r\n\r\n".encode()
    try:
        for stp in case["steps"]:
            k = stp["k"]
            if k == "probe":
                what = stp["what"]
                req = {"endpoint": good, "other-path": f"GET {ep}nope HTTP/1.1\r\n\r\n".encode(),
                       "post": f"POST {ep} HTTP/1.1\r\n\r\n".encode()}[what]
                code, raw = await http(port, req)
                want = (503 if failed else 200) if what == "endpoint" else 404
                if code != want:
                    out.v("wrong-answer", f"{what} probe answered {code} ({raw[:60]!r}), expected {want} (consumer failed: {failed})",
                          what=what, want=want)
            elif k == "bad":
                data = bytes.fromhex(stp["req"]["hex"])
                try:
                    await http(port, data, cuts=stp["cuts"], timeout=2.0)
                except (OSError, asyncio.TimeoutError):
                    pass
                code, raw = await http(port, good)
                malformed_then_ok += 1
                if code != (503 if failed else 200):
                    out.v("knocked-over", f"after sending {data[:60]!r} a well-formed probe answered {code} ({raw[:60]!r}), expected "
                          f"{503 if failed else 200}", kind=stp["req"]["kind"])
            elif k == "open-early":
                early.append(await asyncio.open_connection("127.0.0.1", port))
            elif k == "fail-consumer":
                if not failed:
                    make_consumer_fail()
                    failed = True
                    flips += 1
                    await asyncio.sleep(0.15)
                    # a connection opened *before* the failure must report the status as of now
                    for rw in early:
                        code, raw = await http(port, good, reader_writer=rw)
                        if code != 503:
                            out.v("stale-status", f"a connection opened before the consumer failed answered {code} after the failure "
                                  f"({raw[:60]!r})")
                    early = []
            elif k == "many":
                res = await asyncio.gather(*[http(port, good) for _ in range(stp["n"])], return_exceptions=True)
                bad = [r for r in res if isinstance(r, Exception) or r[0] != (503 if failed else 200)]
                if bad:
                    out.v("wrong-answer", f"{len(bad)} of {stp['n']} concurrent probes failed: {bad[0]!r}", what="many",
                          want=503 if failed else 200)
            elif k == "silent":
                for _ in range(stp["n"]):
                    r_, w_ = await asyncio.wait_for(asyncio.open_connection("127.0.0.1", port), 3.0)
                    w_.close()
                    try:
                        await asyncio.wait_for(w_.wait_closed(), 1.0)
                    except (asyncio.TimeoutError, OSError):
                        pass
                await asyncio.sleep(0.05)
                code, raw = await http(port, good)
                malformed_then_ok += 1
                if code != (503 if failed else 200):
                    out.v("knocked-over", f"after {stp['n']} connections that sent nothing a well-formed probe answered {code} ({raw[:60]!r}), "
                          f"expected {503 if failed else 200}", kind="silent-connections")
            elif k == "job":
                enq += 1
                await Job("work", queue="qok", id_=f"job{enq}", _connection=conn).enqueue()
        for rw in early:
            code, raw = await http(port, good, reader_writer=rw)
            if code != (503 if failed else 200):
                out.v("stale-status" if failed else "wrong-answer", f"an early-opened connection answered {code}, expected "
                      f"{503 if failed else 200}")
        # message processing undisturbed
        for _ in range(300):
            if len(done_jobs) >= enq:
                break
            await asyncio.sleep(0.01)
        if len(done_jobs) != enq:
            out.v("jobs-disturbed", f"{enq} jobs enqueued while the endpoint was exercised, {len(done_jobs)} executed")
    except asyncio.TimeoutError:
        out.inconclusive = True
    except OSError as e:
        out.v("port-closed-while-running", f"connection to the health port failed while the worker runs: {e!r}")
    # stop the worker the way a SIGTERM does (its own registered handler): the port must close by itself
    import signal as _signal

    loop = asyncio.get_running_loop()
    graceful_stop = False
    if not wt.done():
        h = getattr(loop, "_signal_handlers", {}).get(_signal.SIGTERM)
        if h is not None:
            if case.get("slow_stop"):
                # stop while an actor is still running: during the graceful wait the endpoint must keep telling the truth
                enq += 1
                await Job("slow", queue="qslow", id_="slowjob", _connection=conn).enqueue()
                try:
                    await asyncio.wait_for(slow_started.wait(), timeout=5.0)
                except asyncio.TimeoutError:
                    out.inconclusive = True
            idle_rw = None
            if case.get("idle_conn_at_stop"):
                try:
                    idle_rw = await asyncio.wait_for(asyncio.open_connection("127.0.0.1", port), 2.0)
                except (OSError, asyncio.TimeoutError):
                    idle_rw = None
            h._run()
            graceful_stop = True
            if case.get("slow_stop") and slow_started.is_set():
                answers = []
                for _ in range(12):
                    if wt.done():
                        break
                    try:
                        code, raw = await http(port, good, timeout=1.0)
                        answers.append(code)
                    except asyncio.TimeoutError:
                        break
                    except OSError as e:
                        # refused: fine once run() has returned - but the worker is still running its actor
                        await asyncio.sleep(0.1)
                        if not wt.done() and "slowjob" not in done_jobs:
                            out.v("port-closed-while-running", f"during the graceful shutdown (an actor still running, run() not returned) the "
                                  f"health port refused a connection: {e!r}; answers so far {answers}")
                        break
                    await asyncio.sleep(0.03)
                want = 503 if failed else 200
                wrong = [a for a in answers if a is not None and a != want]
                if wrong:
                    out.v("status-during-shutdown", f"while the worker was shutting down gracefully (an actor still running) the endpoint "
                          f"answered {answers}, expected {want} (a consumer had failed: {failed})", failed=failed)
        else:
            wt.cancel()
    try:
        res = await asyncio.wait_for(asyncio.gather(wt, return_exceptions=True), timeout=15.0)
        if res and isinstance(res[0], BaseException) and not isinstance(res[0], asyncio.CancelledError):
            out.v("worker-died", f"Worker.run() raised {res[0]!r} while stopping (health server running, "
                  f"idle client connection open: {bool(case.get('idle_conn_at_stop'))})")
        elif case.get("slow_stop") and slow_started.is_set() and "slowjob" not in done_jobs and graceful_stop:
            out.v("jobs-disturbed", "the actor that was running when the stop was requested did not complete within the graceful period "
                  f"(idle client connection open: {bool(case.get('idle_conn_at_stop'))})")
    except asyncio.TimeoutError:
        out.v("worker-stuck", "worker did not stop")
    try:
        if idle_rw is not None:
            idle_rw[1].close()
    except (NameError, OSError):
        pass
    if not graceful_stop and w.health_check_server is not None:
        await w.health_check_server.stop()
    await asyncio.sleep(0.05)
    try:
        await http(port, good, timeout=1.0)
        out.v("port-open-after-run", "the health port still accepts connections after the worker stopped")
    except (OSError, asyncio.TimeoutError):
        pass
    out.nontrivial = malformed_then_ok > 0 or flips > 0
    out.cls("flip" if flips else "no-flip", "malformed-sent" if malformed_then_ok else "no-malformed", "backend-" + case.get("backend", "mem"))


def run_sock(case: dict) -> Outcome:
    out = Outcome()
    loop = asyncio.new_event_loop()
    try:
        loop.run_until_complete(asyncio.wait_for(_sock(case, out), timeout=90.0))
    except asyncio.TimeoutError:
        out.inconclusive = True
    finally:
        try:
            pend = [t for t in asyncio.all_tasks(loop) if not t.done()]
            for t in pend:
                t.cancel()
            if pend:
                loop.run_until_complete(asyncio.gather(*pend, return_exceptions=True))
        finally:
            loop.close()
    return out


def atheris_external(tier: str, seed: int, shard: int, nshards: int):
    """Thorough tier: a coverage-guided libFuzzer campaign (atheris) over the same protocol oracle.
    Even shards start from a small corpus of valid requests, odd shards from an empty corpus."""
    import json
    import os
    import shutil
    import subprocess
    import sys
    from pathlib import Path

    if tier != "thorough":
        return None
    root = Path(__file__).resolve().parent.parent.parent
    probe = subprocess.run([sys.executable, "-c", "import atheris"], env=dict(os.environ), capture_output=True)
    if probe.returncode != 0:
        # atheris is installed into .deps by tools/setup.sh; without it the Hypothesis engines still decide the property
        return {"evaluations": 0, "samples": [], "nontrivial_cases": [], "errors": [], "classes": {"atheris-unavailable": 1}}
    work = root / ".work" / f"atheris-c20-{os.getpid()}-{shard}"
    corpus = work / "corpus"
    corpus.mkdir(parents=True, exist_ok=True)
    if shard % 2 == 0:
        seeds = [b"GET /healthz HTTP/1.1\r\nHost: x\r\n\r\n", b"GET / HTTP/1.0\r\n\r\n", b"POST /healthz HTTP/1.1\r\nA: b\r\n\r\n",
                 b"GET /a/b-c HTTP/1.1\r\n\r\nGET /a/b-c HTTP/1.1\r\n\r\n", b"HEAD /h~._ HTTP/1.1\r\n\r\n"]
        for i, sd in enumerate(seeds):
            for tail in (b"\x00\x00\x00\x00", b"\x01\x01\x02\x10\x05\x00", b"\x02\x00\x01\x08\x01"):
                (corpus / f"s{i}_{tail.hex()}").write_bytes(sd + tail)
    outp = work / "out.json"
    env = dict(os.environ)
    cmd = [sys.executable, "-m", "harness.fuzz_c20", str(outp), "-runs=300000", f"-seed={seed * 1000 + shard + 1}", "-max_len=600",
           str(corpus)]
    def lift_limits() -> None:  # libFuzzer reserves a large address range; it has its own rss limit
        import resource

        _soft, hard = resource.getrlimit(resource.RLIMIT_AS)
        resource.setrlimit(resource.RLIMIT_AS, (hard, hard))

    r = subprocess.run(cmd, cwd=str(root), env=env, capture_output=True, text=True, timeout=900, preexec_fn=lift_limits)
    res = {"evaluations": 0, "samples": [], "nontrivial_cases": [], "errors": [], "classes": {}}
    if outp.exists():
        d = json.loads(outp.read_text())
        res.update({"evaluations": d["evaluations"], "samples": d["samples"], "nontrivial_cases": d["nontrivial_cases"],
                    "failure": d["failure"], "classes": {"corpus-seeded" if shard % 2 == 0 else "corpus-empty": d["evaluations"]}})
    else:
        res["errors"].append("atheris produced no output: " + (r.stdout + r.stderr)[-600:])
    shutil.rmtree(work, ignore_errors=True)
    return res


CHECK = Check(
    pid="C20",
    level="exploration",
    rule=(
        "(i) protocol level: _HttpServerProtocol with a recording transport; byte strings from a grammar (GET/HEAD/POST/PUT x endpoint / "
        "near-miss paths x HTTP versions x headers) mutated by truncation, binary splices, oversize headers (10 kB - 1 MB), bare LF, two "
        "requests, pure garbage, request targets of 12-5000 characters (complete / truncated / without version), split into 1-5 data_received chunks; endpoint name generated from URL-path characters. Oracle: data_received stays within a budget of 2 s of process CPU time (it runs on the worker's event loop); "
        "data_received raises nothing but Exception, any response is well-formed with matching Content-Length and status 200/503 only for "
        "GET on the endpoint (equal to the current health status) else 404, the connection is closed after a response, a well-formed "
        "single-chunk request is always answered. (ii) socket level on a real loop: Worker with the health server on 127.0.0.1:free "
        "port; generated histories of probes (endpoint / other path / POST), malformed sends followed by a well-formed probe, "
        "connections opened early, bursts of 5-40 concurrent probes, a consumer failure (flip to 503), jobs enqueued meanwhile. Oracle: "
        "200 iff no consumer failed so far else 503 (also on connections opened before the failure), 404 otherwise, port refused before "
        "run() and after it stopped, all jobs executed. Non-trivial: (i) not a single well-formed request, (ii) a malformed send or a flip."
    ),
    assumptions=["socket level uses real time and loopback sockets; a client-side timeout is counted inconclusive, never a violation",
                 "an answer to a request split across packets or malformed is not demanded"],
    subchecks=[
        SubCheck("protocol", proto_case, run_proto, quick=1500, thorough=60000),
        SubCheck("socket", sock_case, run_sock, quick=6, thorough=150, shards=8),
        SubCheck("protocol-atheris", None, run_proto, quick=0, thorough=0, external=atheris_external),
    ],
)
