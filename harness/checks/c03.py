"""C03 — Stopping or killing a worker at any moment loses no message (fault enumeration over loop steps)."""
from __future__ import annotations

import asyncio
import itertools
import json
import signal

from hypothesis import strategies as st

from harness import model, scenario, vclock
from harness.core import Check, Outcome, SubCheck, case_hash
from harness.scenario import _params_of

TERMINAL = ("ack", "nack", "reject", "requeue")

# ------------------------------------------------------------------------------------------------ scenario pool
# millisecond-scale actor durations keep the number of loop steps (= crash points) small while every phase
# (prefetch, payload fetch, body, ack / nack / requeue, result store) still occurs


def _job(i, outcome, *, retries=0, store=False, args=None, sleep=0.01, defer_by=None):
    att = []
    for o in outcome:
        if o == "ok":
            att.append({"k": "ret", "v": i, "sleep": sleep})
        elif o == "fail":
            att.append({"k": "raise", "exc": "ValueError", "text": "boom", "sleep": sleep})
        elif o == "eager-ack":
            att.append({"k": "eager", "action": "ack", "program": [["result", i]] if store else [], "sleep": sleep})
        elif o == "eager-retry":
            att.append({"k": "eager", "action": "force_retry", "program": [], "sleep": sleep})
    j = {"id": f"j{i}", "actor": "a0", "queue": "q0", "retries": retries, "store_result": store, "attempts": att}
    if args is not None:
        j["args"] = args
        j["use_args_bucketer"] = True
    if defer_by:
        j["defer_by"] = defer_by
        j["iterations"] = 1
    return j


def pool() -> list[dict]:
    base = []
    jobsets = [
        [_job(0, ["ok"])],
        [_job(0, ["fail"])],
        [_job(0, ["fail", "ok"], retries=1)],
        [_job(0, ["ok"], store=True, args={"x": 1})],
        [_job(0, ["fail", "fail"], retries=1, store=True)],
        [_job(0, ["ok"], sleep=0.03), _job(1, ["ok"], sleep=0.005)],
        [_job(0, ["ok"], sleep=0.02), _job(1, ["fail"], sleep=0.02), _job(2, ["ok"], store=True)],
        [_job(0, ["eager-ack"], store=True), _job(1, ["ok"])],
        [_job(0, ["eager-retry", "ok"]), _job(1, ["ok"], sleep=0.0)],
        [_job(0, ["ok"], sleep=0.0), _job(1, ["ok"], sleep=0.0), _job(2, ["ok"], sleep=0.0), _job(3, ["ok"], sleep=0.0)],
        [_job(0, ["ok"], defer_by=1.0, sleep=0.005)],
    ]
    for js, tl, graceful in itertools.product(jobsets, [1, 2], [0.0, 0.01, 0.5]):
        base.append({"converter": "basic", "actors": [{"name": "a0", "queue": "q0", "shape": "plain"}],
                     "policy": {"kind": "table", "values": [0.02]}, "worker": {"tasks_limit": tl, "graceful": graceful},
                     "jobs": js, "horizon": 8.0, "stop": "signal", "monitor_poll": 0.02})
    # larger graceful periods with a slow actor (forced cancellation after the graceful period)
    for graceful in (2.0, 25.0):
        base.append({"converter": "basic", "actors": [{"name": "a0", "queue": "q0", "shape": "plain"}],
                     "policy": {"kind": "table", "values": [0.02]}, "worker": {"tasks_limit": 1, "graceful": graceful},
                     "jobs": [_job(0, ["ok"], sleep=0.05), _job(1, ["ok"], sleep=0.0)], "horizon": 8.0, "stop": "signal",
                     "monitor_poll": 0.02})
    # a long-running actor and a short graceful period: run() must still return within graceful + fixed slack
    # (crash points are capped to the first 250 loop steps - the later ones are all "actor body still sleeping")
    for graceful in (0.0, 0.5):
        base.append({"converter": "basic", "actors": [{"name": "a0", "queue": "q0", "shape": "plain"}],
                     "policy": {"kind": "table", "values": [0.02]}, "worker": {"tasks_limit": 1, "graceful": graceful},
                     "jobs": [_job(0, ["ok"], sleep=15.0), _job(1, ["ok"], sleep=0.0)], "horizon": 40.0, "stop": "signal",
                     "monitor_poll": 0.02, "enum_cap": 250})
    # (appended after the others: scenario numbers are part of saved replays)
    # the long execution is a *second* delivery of a message whose first delivery the actor answered eagerly (retry / reject): what
    # the worker remembers of the first delivery must not change how the second one is stopped
    for action, graceful in (("force_retry", 0.0), ("force_retry", 0.5), ("reject", 0.5), ("reschedule", 0.0)):
        j = {"id": "j0", "actor": "a0", "queue": "q0", "retries": 1, "store_result": False,
             "attempts": [{"k": "eager", "action": action, "program": [], "sleep": 0.0}, {"k": "ret", "v": 0, "sleep": 15.0}]}
        base.append({"converter": "basic", "actors": [{"name": "a0", "queue": "q0", "shape": "plain"}],
                     "policy": {"kind": "table", "values": [0.02]}, "worker": {"tasks_limit": 1, "graceful": graceful},
                     "jobs": [j, _job(1, ["ok"], sleep=0.0)], "horizon": 40.0, "stop": "signal", "monitor_poll": 0.02, "enum_cap": 400})
    return base


POOL = pool()


def scenario_for(broker: str, idx: int) -> dict:
    c = json.loads(json.dumps(POOL[idx % len(POOL)]))
    c["broker"] = broker
    c["seed"] = idx
    if broker != "mem":
        c["lat"] = [0.0, 0.001, 0.0, 0.002][: (idx % 5)]
    return c


_DRY: dict = {}


def dry_run(base: dict) -> tuple[int, int]:
    """(first step at which the worker's signal handler exists, step at which the uninterrupted run was stopped)"""
    h = case_hash(base)
    if h not in _DRY:
        marks: dict = {}

        def hook(trace, worker):
            loop = trace.env.loop

            def watch(step):
                if "reg" not in marks and loop.sig_handlers.get(int(signal.SIGTERM)):
                    marks["reg"] = step

            loop.add_step_hook(watch)

        tr = scenario.run_case(base, hook=hook)
        lo, hi = marks.get("reg", 1), tr.stop_step or tr.env.loop.steps
        if base.get("enum_cap"):
            hi = min(hi, lo + base["enum_cap"])
        _DRY[h] = (lo, hi)
    return _DRY[h]


# ------------------------------------------------------------------------------------------------ oracle


def check_after_stop(out: Outcome, tr: scenario.Trace, case: dict, stop_t: float | None) -> None:
    graceful = case["worker"].get("graceful", 25.0)
    if tr.run_error is not None and not isinstance(tr.run_error, asyncio.CancelledError):
        out.v("worker-died", f"Worker.run() raised {tr.run_error!r}")
    for e in tr.errors:
        out.v("worker-stuck", e)
    if stop_t is not None and tr.run_returned_at is not None:
        limit = graceful + 5.0 + 1.0 + 1.0
        if tr.run_returned_at - stop_t > limit + 1e-6:
            out.v("slow-shutdown", f"run() returned {tr.run_returned_at - stop_t:.3f}s after the stop request (graceful {graceful}s + "
                  f"fixed slack 7s = {limit}s)")
    for j in case["jobs"]:
        id_ = j["id"]
        if id_ not in tr.enqueued:
            continue
        key, payload0, params0 = tr.enqueued[id_]
        evs = tr.spy.for_id(id_, TERMINAL)
        steps, _end = model.chain({**j, "iterations": 10**9} if j.get("defer_by") else j, case.get("policy"), max_deliveries=20)
        places = tr.final.get(id_, [])
        kinds = sorted(p.kind for p in places)
        tag = f"message {id_} (calls {[(e.op, 'done' if e.done else e.error) for e in evs]})"
        # replay deliveries and calls in loop-step order; a reject only acts on a message that is held
        stream = [(x.step0, 0, "deliver", x) for x in tr.execs_of(id_)] + [(e.step, 1, "call", e) for e in evs]
        stream.sort(key=lambda t: (t[0], t[1]))
        alts = [("queued", params0)]  # admissible (place, parameters) pairs
        held = False
        chain_i = 0
        for _step, _o, kind, e in stream:
            if kind == "deliver":
                held = True
                continue
            if e.op == "reject" and not held:
                continue  # rejecting a message that is no longer held must not change anything

            def apply(alt, e=e):
                st_, prm = alt
                if e.op == "reject":
                    # (in an alternative where an interrupted ack / nack did take effect there is nothing left to return)
                    return alt if st_ in ("gone", "dead") else ("queued", prm)
                if e.op == "ack":
                    return ("gone", None)
                if e.op == "nack":
                    return ("dead", prm)
                return ("queued", _params_of(e))

            applied = [apply(a) for a in alts]
            if e.op != "reject" and e.done:
                if chain_i < len(steps) and steps[chain_i].op != e.op:
                    out.v("wrong-disposition", f"{tag}: delivery {chain_i} expected {steps[chain_i].op}, got {e.op}")
                chain_i += 1
            elif e.op == "reject" and e.done and chain_i < len(steps) and steps[chain_i].op == "reject":
                chain_i += 1  # the actor's own eager reject, not a shutdown hand-back
            if e.done:
                alts = applied
                held = False
            else:
                alts = alts + applied  # interrupted call: it may or may not have taken effect
        if held and not evs:
            pass  # taken but never disposed: must be back in its queue (covered by the 'queued' alternative)
        ok = False
        for st_, prm in alts:
            if st_ == "gone" and not places:
                ok = True
            elif st_ == "dead" and kinds == ["dead"]:
                ok = True
            elif st_ == "queued" and len(places) == 1 and places[0].kind in ("waiting", "delayed"):
                ok = True
                p = places[0]
                if p.params is not None and prm is not None and len(alts) == 1:
                    if p.params.retries.already_tried != prm.retries.already_tried:
                        out.v("retry-counter-changed", f"{tag}: returned with already_tried={p.params.retries.already_tried}, "
                              f"expected {prm.retries.already_tried}", broker=case["broker"])
                    elif p.params != prm:
                        out.v("returned-params-changed", f"{tag}: returned with parameters {p.params}, expected {prm}")
        if not ok:
            what = ("vanished" if not places else "still marked in-flight" if kinds == ["held"] else
                    "duplicated" if len(places) > 1 else "in the wrong place")
            out.v("message-" + what.replace(" ", "-"), f"{tag}: after the worker returned and the loop went idle it is {what}: "
                  f"{[p.short() for p in places]}; admissible: {[a[0] for a in alts]}", broker=case["broker"], what=what,
                  interrupted_op=next((e.op for e in evs if not e.done), None))
        # a finished chain must not be executed again
        completed = [e for e in evs if e.done and e.op in ("ack", "nack")]
        if completed:
            later = [x for x in tr.execs_of(id_) if x.step0 > completed[0].step]
            if later:
                out.v("executed-after-completion", f"{tag}: executed again after it was {completed[0].op}ed")


# ------------------------------------------------------------------------------------------------ stop at step k


def stop_case(broker: str):
    return st.fixed_dictionaries({"broker": st.just(broker), "scenario": st.integers(0, len(POOL) - 1),
                                  "frac": st.floats(0.0, 1.0, allow_nan=False), "source": st.just("signal")})


def enumerate_stop(broker: str):
    def gen(tier: str, shard: int, nshards: int):
        for idx in range(len(POOL)):
            if idx % nshards != shard:
                continue
            base = scenario_for(broker, idx)
            lo, hi = dry_run(base)
            for k in range(lo, hi + 1):
                yield {"broker": broker, "scenario": idx, "step": k, "source": "signal"}
    return gen


def run_stop(case: dict) -> Outcome:
    out = Outcome()
    base = scenario_for(case["broker"], case["scenario"])
    try:
        lo, hi = dry_run(base)
    except (vclock.StepLimit, vclock.Deadlock) as e:
        out.inconclusive = True
        out.info["watchdog"] = str(e)
        return out
    k = case["step"] if "step" in case else lo + int(case["frac"] * (hi - lo))
    info: dict = {}

    def hook(trace, worker):
        loop = trace.env.loop

        def fire():
            info["held"] = sorted(i for i, v in trace.env.probe().items() if any(p.kind == "held" for p in v))
            info["t"] = loop.time()
            info["sent"] = loop.send_signal(signal.SIGTERM)
            if info["sent"]:
                trace.stop_requested_at = loop.time()
                trace.extra["stop_injected"] = True

        loop.inject_at_step(k, fire)

    try:
        tr = scenario.run_case(base, hook=hook)
    except vclock.StepLimit as e:
        out.v("worker-stuck", f"scenario {case['scenario']} with a stop signal at loop step {k} did not finish: {e}")
        return out
    except vclock.Deadlock as e:
        out.inconclusive = True
        out.info["watchdog"] = str(e)
        return out
    check_after_stop(out, tr, base, info.get("t") if info.get("sent") else None)
    for v in out.violations:
        v.msg = f"[scenario {case['scenario']}, stop signal at loop step {k} of {lo}..{hi}, t={info.get('t')}] " + v.msg
    out.nontrivial = bool(info.get("held")) and bool(info.get("sent"))
    out.cls("broker-" + case["broker"], "held-at-stop" if info.get("held") else "nothing-held-at-stop",
            f"graceful-{base['worker']['graceful']}", "signal-delivered" if info.get("sent") else "signal-before-handler")
    return out


# ------------------------------------------------------------------------------------------------ random workloads


@st.composite
def random_stop_case(draw, broker):
    from harness import gen

    case = draw(gen.worker_case(brokers=(broker,), max_jobs=4, tasks_limits=(1, 2, 3), job_kw={"allow_timeout": False}))
    for j in case["jobs"]:
        for o in j["attempts"]:
            if o.get("sleep"):
                o["sleep"] = round(min(o["sleep"], 2.0) * 0.025, 4)  # millisecond-scale bodies: few loop steps per phase
        if j.get("defer_by"):
            j["defer_by"] = 1.0
    if case["policy"]["kind"] == "table":
        case["policy"]["values"] = [round(v * 0.02, 3) for v in case["policy"]["values"]]
    else:
        case["policy"] = {"kind": "table", "values": [0.02]}
    case["worker"]["graceful"] = draw(st.sampled_from([0.0, 0.01, 0.05, 0.5]))
    case["monitor_poll"] = 0.02
    case["horizon"] = 12.0
    case["frac"] = draw(st.floats(0.0, 1.0, allow_nan=False))
    # most loop steps of a workload are idle polling: aim near the steps where something happens (dry-run event steps)
    case["near_event"] = draw(st.integers(0, 4)) != 0
    case["delta"] = draw(st.integers(-4, 14))
    return case


def run_random_stop(case: dict) -> Outcome:
    out = Outcome()
    base = {k: v for k, v in case.items() if k not in ("frac", "near_event", "delta")}
    marks: dict = {}

    def dry_hook(trace, worker):
        loop = trace.env.loop

        def watch(step):
            if "reg" not in marks and loop.sig_handlers.get(int(signal.SIGTERM)):
                marks["reg"] = step

        loop.add_step_hook(watch)

    try:
        d = scenario.run_case(base, hook=dry_hook)
    except (vclock.StepLimit, vclock.Deadlock) as e:
        out.inconclusive = True
        out.info["watchdog"] = str(e)
        return out
    lo, hi = marks.get("reg", 1), d.stop_step or d.env.loop.steps
    k = lo + int(case["frac"] * max(0, hi - lo))
    if case.get("near_event"):
        ev_steps = sorted({e.step for e in d.spy.events if lo <= e.step <= hi} | {x.step0 for x in d.execs if lo <= x.step0 <= hi})
        if ev_steps:
            k = min(hi, max(lo, ev_steps[min(len(ev_steps) - 1, int(case["frac"] * len(ev_steps)))] + case.get("delta", 0)))
    info: dict = {}

    def hook(trace, worker):
        loop = trace.env.loop

        def fire():
            info["held"] = sorted(i for i, v in trace.env.probe().items() if any(p.kind == "held" for p in v))
            info["t"] = loop.time()
            info["sent"] = loop.send_signal(signal.SIGTERM)
            if info["sent"]:
                trace.stop_requested_at = loop.time()
                trace.extra["stop_injected"] = True

        loop.inject_at_step(k, fire)

    try:
        tr = scenario.run_case(base, hook=hook)
    except vclock.StepLimit as e:
        out.v("worker-stuck", f"generated workload with a stop signal at loop step {k} did not finish: {e}")
        return out
    except vclock.Deadlock as e:
        out.inconclusive = True
        return out
    check_after_stop(out, tr, base, info.get("t") if info.get("sent") else None)
    for v in out.violations:
        v.msg = f"[stop signal at loop step {k} of {lo}..{hi}, t={info.get('t')}] " + v.msg
    out.nontrivial = bool(info.get("held")) and bool(info.get("sent"))
    out.cls("broker-" + case["broker"], "held-at-stop" if info.get("held") else "nothing-held-at-stop",
            f"graceful-{base['worker']['graceful']}")
    return out


# ------------------------------------------------------------------------------------------------ stop by messages_limit


def limit_case(broker: str):
    return st.fixed_dictionaries({"broker": st.just(broker), "scenario": st.integers(0, len(POOL) - 1),
                                  "limit": st.integers(1, 3)})


def run_limit(case: dict) -> Outcome:
    out = Outcome()
    base = scenario_for(case["broker"], case["scenario"])
    base["worker"]["messages_limit"] = case["limit"]
    base["stop"] = "limit"
    base["horizon"] = 12.0
    try:
        tr = scenario.run_case(base, settled=lambda t: False)
    except (vclock.StepLimit, vclock.Deadlock) as e:
        out.inconclusive = True
        out.info["watchdog"] = str(e)
        return out
    if tr.horizon_hit:
        # fewer deliveries than the limit: the worker legitimately keeps waiting; it was then stopped by signal
        pass
    check_after_stop(out, tr, base, None)
    out.nontrivial = len(tr.execs) >= 1 and not tr.horizon_hit
    out.cls("broker-" + case["broker"], f"limit-{case['limit']}", "stopped-by-limit" if not tr.horizon_hit else "limit-not-reached")
    return out


@st.composite
def limit_multi_case(draw):
    """Several queues and a message limit: a message of another queue is fetched while the limit is being reached and handed
    back while the last counted execution ends - durations on a microsecond grid so the two overlap in every possible way."""
    broker = draw(st.sampled_from(["mem", "redis", "redis", "amqp", "amqp"]))
    nq = draw(st.integers(2, 3))
    actors = [{"name": f"a{q}", "queue": f"q{q}", "shape": "plain"} for q in range(nq)]
    dur = st.one_of(st.integers(0, 40_000).map(lambda us: us / 1e6), st.sampled_from([0.0, 0.2]))
    jobs = []
    for q in range(nq):
        for _ in range(draw(st.integers(1, 3))):
            i = len(jobs)
            jobs.append({"id": f"j{i}", "actor": f"a{q}", "queue": f"q{q}", "retries": 0, "store_result": draw(st.integers(0, 3)) == 0,
                         "attempts": [{"k": "ret", "v": i, "sleep": draw(dur)}],
                         "enqueue_at": draw(st.one_of(st.just(0.0), st.integers(0, 30_000).map(lambda us: us / 1e6)))})
    case = {"broker": broker, "seed": draw(st.integers(0, 2**16)), "converter": "basic", "actors": actors,
            "policy": {"kind": "table", "values": [0.02]},
            "worker": {"tasks_limit": draw(st.sampled_from([1, 2, 1000])), "graceful": draw(st.sampled_from([0.0, 0.5, 25.0])),
                       "messages_limit": draw(st.integers(1, max(1, len(jobs) - 1)))},
            "jobs": jobs, "horizon": 12.0, "stop": "limit", "monitor_poll": 0.02}
    if broker != "mem":
        case["lat"] = draw(st.lists(st.sampled_from([0.0, 0.001, 0.002, 0.005]), min_size=4, max_size=40))
    # sometimes a stop signal arrives as well - before, while or after the limit is being reached
    case["signal_at"] = draw(st.one_of(st.none(), st.none(), st.integers(0, 300_000).map(lambda us: us / 1e6)))
    return case


def run_limit_multi(case: dict) -> Outcome:
    out = Outcome()
    info: dict = {}

    def hook(trace, worker):
        loop = trace.env.loop

        def fire():
            info["sent"] = loop.send_signal(signal.SIGTERM)
            if info["sent"]:
                info["t"] = loop.time()
                trace.stop_requested_at = loop.time()
                trace.extra["stop_injected"] = True

        if case.get("signal_at") is not None:
            loop.call_later(case["signal_at"], fire)

    try:
        tr = scenario.run_case({k: v for k, v in case.items() if k != "signal_at"}, settled=lambda t: False, hook=hook)
    except (vclock.StepLimit, vclock.Deadlock) as e:
        out.inconclusive = True
        out.info["watchdog"] = str(e)
        return out
    check_after_stop(out, tr, case, info.get("t"))
    handed_back = [e for e in tr.spy.events if e.op == "reject"]
    if info.get("sent"):
        out.cls("signal-too")
    out.nontrivial = not tr.horizon_hit and bool(handed_back)
    out.cls("broker-" + case["broker"], "stopped-by-limit" if not tr.horizon_hit else "limit-not-reached",
            "hand-back" if handed_back else "no-hand-back")
    return out


# ------------------------------------------------------------------------------------------------ process death (Redis / AMQP)


def kill_case(broker: str):
    return st.fixed_dictionaries({"broker": st.just(broker), "scenario": st.integers(0, len(POOL) - 1),
                                  "frac": st.floats(0.0, 1.0, allow_nan=False),
                                  "early_frac": st.floats(0.05, 0.95), "late_extra": st.sampled_from([0.002, 0.1, 0.9, 3.0]),
                                  "timeout": st.sampled_from([2, 3]), "mixed": st.booleans(),
                                  "long_timeout": st.sampled_from([30, 600, 3600, 86400, 2 * 86400 + 2])})


def enumerate_kill(broker: str):
    def gen(tier: str, shard: int, nshards: int):
        for idx in range(len(POOL)):
            if idx % nshards != shard:
                continue
            base = scenario_for(broker, idx)
            lo, hi = dry_run(base)
            for k in range(lo, hi + 1):
                yield {"broker": broker, "scenario": idx, "step": k, "early_frac": 0.5, "late_extra": 0.002 if k % 2 else 0.9, "timeout": 2,
                       "mixed": k % 3 == 0, "long_timeout": 600}
    return gen


async def _kill(loop, case, base, k, out: Outcome):
    from repid import MessageCategory

    info: dict = {}

    def hook(trace, worker):
        def fire():
            info["t"] = loop.time()
            info["killed"] = True
            trace.env.kill("w0")
            # the process is gone: nothing of it runs any more
            for t in asyncio.all_tasks(loop):
                if t is not main and t is not asyncio.current_task(loop):
                    t.cancel()
        loop.inject_at_step(k, fire)
        info["trace"] = trace

    main = asyncio.current_task(loop)
    try:
        tr = await scenario.run_worker_case(loop, base, hook=hook)
    except (asyncio.CancelledError, ConnectionError, Exception) as e:  # noqa: BLE001  the dead process' own errors
        tr = info.get("trace")
        info["err"] = repr(e)
    if not info.get("killed") or tr is None:
        out.cls("kill-after-finish")
        return
    env = tr.env
    await asyncio.sleep(0.05)
    t_kill = info["t"]
    pr = env.probe()
    enq = {j["id"] for j in base["jobs"] if j["id"] in tr.enqueued}
    # terminal calls that reached the server before the death
    acked = {getattr(e.key, "id_", None) for e in tr.spy.events if e.op == "ack" and e.done}
    inflight = {i for i in enq if any(p.kind == "held" for p in pr.get(i, []))}
    out.nontrivial = bool(inflight) or case["broker"] == "amqp"
    out.cls("broker-" + case["broker"], "in-flight-at-death" if inflight else "nothing-in-flight")
    for i in enq:
        places = pr.get(i, [])
        if len(places) > 1:
            out.v("message-duplicated", f"after the worker died at step {k} message {i} is in {[p.short() for p in places]}",
                  broker=case["broker"], what="duplicated")
        if not places and i not in acked:
            maybe = any(getattr(e.key, "id_", None) == i and e.op in ("ack", "requeue") and not e.done for e in tr.spy.events)
            if not maybe:
                out.v("message-vanished", f"after the worker died at step {k} message {i} is nowhere and was never acked",
                      broker=case["broker"], what="vanished")
    if case["broker"] == "amqp":
        # the server notices the lost connection: everything unacked is back in a queue
        for i in enq:
            if any(p.kind == "held" for p in pr.get(i, [])):
                out.v("message-still-marked-in-flight", f"message {i} is still unacked after the connection died", broker="amqp",
                      what="still marked in-flight")
        return
    # Redis: in flight until execution timeout + maintenance
    srv = env.rserver
    before = {}
    for i in inflight:
        p = [x for x in pr[i] if x.kind == "held"][0]
        t_take = srv.zadd_times.get(("processing", f"{p.topic}:{i}".encode()))
        if t_take is None or p.params is None:
            continue
        before[i] = (t_take - vclock._EPOCH_TS, p.params)
    if not before:
        return
    deadlines = sorted({round(t + prm.execution_timeout.total_seconds(), 6) for t, prm in before.values()})
    # maintenance runs: before any timeout elapsed; after each distinct deadline (others may still be pending)
    times = [t_kill + (deadlines[0] - t_kill) * case["early_frac"]] + [d + case["late_extra"] for d in deadlines]
    for n, t_m in enumerate(times):
        await asyncio.sleep(max(0.0, t_m - loop.time()))
        cm = env.connection(f"m{n}", None, buckets=False)
        # (judged by the instant the maintenance run itself started - it reads the clock once, first thing - not by the instant of
        #  the probe 10 ms later, and not by the planned instant: the dying worker's scenario may have taken the clock past it)
        now = loop.time()
        await cm.connect()
        await asyncio.sleep(0.01)
        prn = env.probe()
        for i, (t_take, prm) in before.items():
            deadline = t_take + prm.execution_timeout.total_seconds()
            places = prn.get(i, [])
            kinds = [p.kind for p in places]
            if now < deadline - 0.001:
                if kinds != ["held"]:
                    out.v("timeout-early-release", f"worker died at {t_kill:.6f}; message {i} taken at {t_take:.6f} (timeout ends "
                          f"{deadline:.6f}) was returned by maintenance at {now:.6f}: {[p.short() for p in places]}")
            elif now > deadline + 0.001:
                if len(places) != 1 or places[0].kind not in ("waiting", "delayed"):
                    out.v("timeout-not-released", f"worker died at {t_kill:.6f}; message {i} taken at {t_take:.6f} should be deliverable "
                          f"again after maintenance at {now:.6f} (its timeout ended {deadline:.6f}; other in-flight deadlines: "
                          f"{deadlines}); found {[p.short() for p in places]}")
                elif places[0].params is not None and places[0].params.retries.already_tried != prm.retries.already_tried:
                    out.v("retry-counter-changed", f"message {i} recovered with already_tried={places[0].params.retries.already_tried}, "
                          f"was {prm.retries.already_tried}", broker="redis")
    pr2 = env.probe()
    c2 = cm
    # deliverable exactly once
    cons = c2.message_broker.get_consumer("q0", None, None, MessageCategory.NORMAL)
    await cons.start()
    got: list = []
    try:
        while True:
            kk, _p, _q = await asyncio.wait_for(cons.consume(), timeout=1.6)
            got.append(kk.id_)
            await c2.message_broker.ack(kk)
    except asyncio.TimeoutError:
        pass
    await cons.finish()
    for i in before:
        places = pr2.get(i, [])
        later = len(places) == 1 and places[0].kind == "delayed" and (places[0].due is None or places[0].due > loop.time() - 1.0)
        if got.count(i) > 1 or (got.count(i) == 0 and not later):
            out.v("recovered-delivery-count", f"recovered message {i} was delivered {got.count(i)} times to a fresh consumer")


def run_kill(case: dict) -> Outcome:
    out = Outcome()
    base = scenario_for(case["broker"], case["scenario"])
    for i, j in enumerate(base["jobs"]):
        # execution timeouts are per message: the first job may have a long one, the others short ones
        j["timeout"] = case.get("long_timeout", case["timeout"]) if (i == 0 and case.get("mixed")) else case["timeout"]
    try:
        lo, hi = dry_run(base)
    except (vclock.StepLimit, vclock.Deadlock) as e:
        out.inconclusive = True
        return out
    k = case["step"] if "step" in case else lo + int(case["frac"] * (hi - lo))
    try:
        vclock.run(lambda loop: _kill(loop, case, base, k, out), max_steps=600_000)
    except (vclock.StepLimit, vclock.Deadlock) as e:
        out.inconclusive = True
        out.info["watchdog"] = str(e)
    for v in out.violations:
        v.msg = f"[scenario {case['scenario']}, death at loop step {k}] " + v.msg
    return out


CHECK = Check(
    pid="C03",
    level="fault_enumeration",
    rule=(
        f"Fault injection indexed by event-loop step on a deterministic loop. A pool of {len(POOL)} small workloads (1-4 messages; "
        "success, failure, retry, eager ack / force_retry, result store, argument bucket, recurring; tasks_limit 1-2; actor durations "
        "0-50 ms; graceful period 0 / 0.01 / 0.5 / 2 / 25 s) x broker (in-memory, Redis model, AMQP model). stop-*: the worker's own "
        "signal handler is invoked at loop step k (quick: k drawn by Hypothesis over the dry-run step range; thorough: every k "
        "enumerated). limit: the worker stops by messages_limit 1-3; limit-multi: generated workloads over 2-3 queues with microsecond-grid "
        "durations, so a message of another queue is fetched and handed back while the last counted execution ends. kill-*: the client dies at step k without any cleanup (Redis: "
        "then maintenance before and after the execution timeout; AMQP: the server requeues). Oracle: run() returns within graceful+7 s; "
        "after return and loop idle every message is, consistently with the terminal calls that completed (interrupted calls may or may "
        "not have taken effect), absent / dead / queued exactly once - never vanished, duplicated or still in flight - a returned "
        "message has its retry counter unchanged, a completed message is not executed again; Redis recovery: not before take+timeout, "
        "exactly once after. Non-trivial = the injection lands while the worker holds a message."
    ),
    assumptions=[
        "virtual clock; Redis and RabbitMQ are in-process server models; 'crash point' = loop step (asyncio has no preemption inside a step)",
        "observation at quiescence (0.5 virtual seconds after run() returned)",
        "thorough tier enumerates every step of every pooled scenario (exhaustive for the pool, not for all workloads)",
    ],
    subchecks=[
        SubCheck("stop-mem", lambda: stop_case("mem"), run_stop, quick=25, thorough=0, enumerate_cases=enumerate_stop("mem"), exhaustive=True),
        SubCheck("stop-redis", lambda: stop_case("redis"), run_stop, quick=40, thorough=0, enumerate_cases=enumerate_stop("redis"), exhaustive=True),
        SubCheck("stop-amqp", lambda: stop_case("amqp"), run_stop, quick=40, thorough=0, enumerate_cases=enumerate_stop("amqp"), exhaustive=True),
        SubCheck("stop-random-mem", lambda: random_stop_case("mem"), run_random_stop, quick=8, thorough=400),
        SubCheck("stop-random-redis", lambda: random_stop_case("redis"), run_random_stop, quick=10, thorough=500),
        SubCheck("stop-random-amqp", lambda: random_stop_case("amqp"), run_random_stop, quick=10, thorough=500),
        SubCheck("limit", lambda: st.one_of(limit_case("mem"), limit_case("redis"), limit_case("amqp")), run_limit, quick=12, thorough=300),
        SubCheck("limit-multi", limit_multi_case, run_limit_multi, quick=60, thorough=3000),
        SubCheck("kill-redis", lambda: kill_case("redis"), run_kill, quick=30, thorough=0, enumerate_cases=enumerate_kill("redis"), exhaustive=True),
        SubCheck("kill-amqp", lambda: kill_case("amqp"), run_kill, quick=20, thorough=0, enumerate_cases=enumerate_kill("amqp"), exhaustive=True),
    ],
)
