"""C06 — Recurring jobs: exactly one successor per run, on a steady cadence."""
from __future__ import annotations

from datetime import timedelta

from hypothesis import strategies as st

from harness import gen, model, scenario, vclock
from harness.core import Check, Outcome, SubCheck
from harness.scenario import _params_of

US = 1_000_000


# ----------------------------------------------------------------------------- (i) parameter level


@st.composite
def cadence_case(draw):
    p = draw(st.one_of(st.integers(1 * US, 20 * US), st.integers(1, 3600).map(lambda s: s * US), st.integers(1 * US, 3600 * US)))
    profile = draw(st.sampled_from(["constant", "growing", "shrinking", "random", "tiny", "over-period"]))
    n = draw(st.integers(2, 10))
    iters = []
    for i in range(n):
        if profile == "constant":
            lat, dur = draw(st.integers(0, p // 2)) if i == 0 else iters[0]["lat_us"], draw(st.integers(0, p // 2)) if i == 0 else iters[0]["dur_us"]
        elif profile == "growing":
            lat, dur = (i * p) // (2 * n), (i * p) // n
        elif profile == "shrinking":
            lat, dur = ((n - i) * p) // (2 * n), ((n - i) * p) // n
        elif profile == "tiny":
            lat, dur = draw(st.integers(0, 3)), draw(st.integers(0, 3))
        elif profile == "over-period":
            lat, dur = draw(st.integers(0, p)), draw(st.integers(0, 3 * p))
        else:
            lat, dur = draw(st.integers(0, p)), draw(st.integers(0, p))
        fails = draw(st.lists(st.fixed_dictionaries({"backoff_us": st.integers(0, 2 * p), "lat_us": st.integers(0, p // 4 + 1),
                                                     "dur_us": st.integers(0, p // 4 + 1)}), max_size=3))
        iters.append({"lat_us": lat, "dur_us": dur, "fails": fails, "final_ok": draw(st.booleans())})
    du = draw(st.one_of(st.none(), st.none(), st.integers(1, 5 * p), st.integers(-3 * p, 0)))
    return {"period_us": p, "iters": iters, "defer_until_off_us": du, "retries": draw(st.integers(0, 3)),
            "ttl_us": draw(st.one_of(st.none(), st.integers(1 * US, 10 * p))), "profile": profile,
            "t0_us": draw(st.integers(0, 10**9) ) * 1000 + draw(st.integers(0, 999))}


def run_cadence(case: dict) -> Outcome:
    from repid.data._parameters import DelayProperties, Parameters, RetriesProperties

    out = Outcome()
    p = timedelta(microseconds=case["period_us"])
    clock = vclock.Pinned(case["t0_us"])
    with clock:
        t0 = vclock.VDateTime.now()
        du = None if case["defer_until_off_us"] is None else t0 + timedelta(microseconds=case["defer_until_off_us"])
        params = Parameters(
            retries=RetriesProperties(max_amount=case["retries"]),
            delay=DelayProperties(delay_until=du, defer_by=p),
            timestamp=t0,
            ttl=None if case["ttl_us"] is None else timedelta(microseconds=case["ttl_us"]),
        )
        # what the brokers use at enqueue time
        s_cur = params.delay.next_execution_time or params.compute_next_execution_time
        if du is not None and du > t0:
            if s_cur != du:
                out.v("first-run-deferred-until", f"first run scheduled at {s_cur}, deferred_until={du}")
        elif s_cur is None or not (t0 < s_cur <= t0 + p):
            out.v("first-run-window", f"first run scheduled at {s_cur}, created {t0}, period {p}")
        if s_cur is None:
            return out
        s_first = s_cur
        varying = set()
        for i, it in enumerate(case["iters"]):
            varying.add((it["lat_us"], it["dur_us"]))
            now = s_cur + timedelta(microseconds=it["lat_us"])  # delivered at or after its scheduled time
            s_iter = s_cur  # scheduled time of this iteration
            cur = params
            exhausted = False
            for f in it["fails"]:
                now = now + timedelta(microseconds=f["dur_us"])
                if cur.retries.already_tried >= cur.retries.max_amount:
                    exhausted = True
                    break
                clock.set(_us(now))
                cur = cur._prepare_retry(timedelta(microseconds=f["backoff_us"]))
                now = cur.delay.next_execution_time + timedelta(microseconds=f["lat_us"])
            if not exhausted:
                now = now + timedelta(microseconds=it["dur_us"])
            clock.set(_us(now))
            try:
                new = cur._prepare_reschedule()
            except Exception as e:  # noqa: BLE001
                out.v("reschedule-raises", f"_prepare_reschedule raised {type(e).__name__}: {e} at iteration {i}")
                return out
            s_next = new.delay.next_execution_time
            tag = f"iteration {i} (scheduled {s_iter}, completed {now}, period {p})"
            if new.retries.already_tried != 0:
                out.v("counter-not-reset", f"{tag}: successor has already_tried={new.retries.already_tried}")
            if new.retries.max_amount != params.retries.max_amount:
                out.v("budget-changed", f"{tag}: successor max retries {new.retries.max_amount}")
            if new.timestamp != now:
                # the time-to-live clock restarts at the rescheduling - not earlier (old clock kept) and not later (clock that only
                # starts at the slot: the message could never expire while it waits)
                out.v("ttl-clock-not-restarted", f"{tag}: successor timestamp {new.timestamp}, but it was scheduled at {now}")
            if s_next is None:
                out.v("no-successor-time", f"{tag}: successor has no next execution time")
                return out
            if not (now < s_next <= now + p):
                out.v("successor-window", f"{tag}: successor scheduled at {s_next}, not in (now, now+period]")
            if s_next < s_iter + p:
                out.v("cadence", f"{tag}: successor scheduled at {s_next}, less than one period after the run's own slot",
                      first=(i == 0 and du is not None))
            if (s_next - s_first) % p != timedelta(0):
                # "on a steady cadence": the slots form one grid; a retry in between (or a late run) shifts nothing
                out.v("cadence-grid", f"{tag}: successor scheduled at {s_next}, which is not a whole number of periods after the first "
                      f"slot {s_first}", after_retry=bool(it["fails"]))
            if new.delay.defer_by != p or new.ttl != params.ttl or new.execution_timeout != params.execution_timeout:
                out.v("settings-changed", f"{tag}: successor changed period/ttl/timeout: {new}")
            params, s_cur = new, s_next
    out.nontrivial = len(case["iters"]) >= 3 and len(varying) > 1
    out.cls("profile-" + case["profile"], "deferred_until-" + ("none" if case["defer_until_off_us"] is None else
                                                                ("ahead" if case["defer_until_off_us"] > 0 else "past")),
            "with-retry-chain" if any(it["fails"] for it in case["iters"]) else "no-retry-chain")
    return out


def _us(d) -> int:
    delta = d - vclock.EPOCH
    return (delta.days * 86400 + delta.seconds) * US + delta.microseconds


# ----------------------------------------------------------------------------- (ii) worker level


@st.composite
def recurring_case(draw, brokers):
    broker = draw(st.sampled_from(list(brokers)))
    actors = [{"name": "a_plain", "queue": "q0", "shape": "plain"}]
    p = draw(st.sampled_from([1, 1.5, 2, 2.5, 3, 4]))
    iters = draw(st.integers(2, 4))
    att = []
    for _ in range(draw(st.integers(1, 6))):
        att.append(draw(st.one_of(gen.outcome_ret(), gen.outcome_ret(), gen.outcome_raise())))
    j = {"id": "rec", "actor": "a_plain", "queue": "q0", "retries": draw(st.integers(0, 2)), "defer_by": p, "iterations": iters,
         "attempts": att, "store_result": draw(st.booleans()), "enqueue_at": draw(st.integers(0, 999)) / 1000}
    if draw(st.integers(0, 2)) == 0:
        j["defer_until"] = draw(st.integers(0, 4000)) / 1000
    if draw(st.integers(0, 3)) == 0:
        j["ttl"] = draw(st.sampled_from([30, 60]))
    elif j["retries"] == 0 and "defer_until" not in j and draw(st.integers(0, 3)) == 0:
        # a time-to-live barely longer than the period: an iteration can still be running (and fail) after its own ttl has run
        # out - it was delivered in time, it completes, so it has exactly one successor like any other
        j["ttl"] = p + 2.5  # (long enough to be delivered at its slot even after the broker's pickup latency; first slot = one period ahead)
        for a in att:
            if draw(st.booleans()):
                a["sleep"] = draw(st.sampled_from([1.0, 3.0, 4.0]))
    jobs = [j]
    tl = draw(st.sampled_from([1, 1, 2, 1000]))
    for i in range(draw(st.integers(0, 2))):  # competing jobs (delivery latency under tasks_limit=1)
        jobs.append({"id": f"c{i}", "actor": "a_plain", "queue": "q0", "retries": 0, "store_result": False,
                     "attempts": [{"k": "ret", "v": i, "sleep": draw(st.sampled_from([0.2, 0.7, 1.3, 2.2]))}],
                     "enqueue_at": draw(st.integers(0, 6000)) / 1000})
    case = {"broker": broker, "seed": draw(st.integers(0, 2**16)), "converter": "basic", "actors": actors,
            "policy": {"kind": "table", "values": draw(st.lists(st.sampled_from([0.0, 0.3, 1.0, 2.5]), min_size=1, max_size=3))},
            "worker": {"tasks_limit": tl}, "jobs": jobs}
    case["tz"] = draw(st.sampled_from([None, None, *vclock.zones(3)]))  # host time zone: repid keeps naive local datetimes
    if broker != "mem":
        case["lat"] = draw(st.lists(st.sampled_from([0.0, 0.001, 0.003]), max_size=20))
    if case["tz"] is None:
        del case["tz"]
    if draw(st.integers(0, 3)) == 0:
        # an operator's tool looks into the delayed category while the job recurs: it takes the pending iteration before it is due
        # and hands it back (reject, or by closing the iteration) - the slot it was scheduled for is still its slot
        case["inspect"] = [{"at": draw(st.integers(100, 5000)) / 1000, "queue": "q0", "category": "DELAYED", "n": draw(st.integers(1, 2)),
                            "hold": draw(st.sampled_from([0.01, 0.1, 0.3])), "how": draw(st.sampled_from(["reject", "reject", "close"]))}
                           for _ in range(draw(st.integers(1, 3)))]
        # (every hand-back of an iteration that is not due yet may move it to a later slot - skipped slots are fine - so a
        #  time-to-live of a few seconds could simply run out before the job ever runs: that is expiry, not recurrence)
        if j.get("ttl") is not None and j["ttl"] < 30:
            j["ttl"] = 30
    return gen.finalize(gen.host_dims(draw, case, rename=False))


def run_worker(case: dict) -> Outcome:
    out = Outcome()
    try:
        tr = scenario.run_case(case)
    except (vclock.StepLimit, vclock.Deadlock) as e:
        out.inconclusive = True
        out.info["watchdog"] = str(e)
        return out
    if tr.run_error is not None:
        out.v("worker-died", f"Worker.run() raised {tr.run_error!r}")
    j = case["jobs"][0]
    p = j["defer_by"]
    steps, _ = model.chain({**j, "iterations": 10**9}, case["policy"], max_deliveries=40)
    obs = tr.spy.for_id("rec", ("ack", "nack", "reject", "requeue"))
    execs = tr.execs_of("rec")
    # scheduled time of the first iteration
    key, payload, params0 = tr.enqueued.get("rec", (None, None, None))
    if params0 is None:
        out.inconclusive = True
        return out
    t_enq = tr.enqueue_t["rec"]
    s_iter = tr.extra.get("first_slot", {}).get("rec")
    if s_iter is None:
        out.v("no-first-slot", "recurring job has no first execution time")
        return out
    if j.get("defer_until") is not None and j["defer_until"] > t_enq + 1e-6:
        if abs(s_iter - j["defer_until"]) > 1e-6:
            out.v("first-run-deferred-until", f"first slot {s_iter:.6f}, deferred_until {j['defer_until']:.6f} is ahead of {t_enq:.6f}")
    elif not (t_enq - 1e-6 < s_iter <= t_enq + p + 1e-6):
        out.v("first-run-window", f"first slot {s_iter:.6f} not within one period ({p}) after enqueue at {t_enq:.6f}")
    if execs and execs[0].t0 < s_iter - 0.001:
        out.v("first-run-early", f"first run at {execs[0].t0:.6f}, scheduled {s_iter:.6f}")
    n_resched = 0
    durs = set()
    for i, e in enumerate(obs):
        if i >= len(steps):
            break
        s = steps[i]
        if e.op != s.op:
            out.v("wrong-disposition", f"delivery {i}: expected {s.op}, got {e.op}")
            break
        if not s.resched:
            continue
        n_resched += 1
        prm = _params_of(e)
        now = e.t
        s_next = vclock.secs(prm.delay.next_execution_time) if prm.delay.next_execution_time is not None else None
        tag = f"iteration {n_resched} (slot {s_iter:.6f}, completed {now:.6f}, period {p})"
        if prm.retries.already_tried != 0:
            out.v("counter-not-reset", f"{tag}: successor already_tried={prm.retries.already_tried}")
        if abs(vclock.secs(prm.timestamp) - now) > 1e-6:
            out.v("ttl-clock-not-restarted", f"{tag}: successor timestamp {prm.timestamp}, but it was scheduled at {now:.6f}")
        if s_next is None:
            out.v("no-successor-time", f"{tag}: no next execution time")
            break
        if not (now - 1e-6 < s_next <= now + p + 1e-6) or s_next <= now:
            out.v("successor-window", f"{tag}: successor at {s_next:.6f} not in (now, now+p]")
        if s_next < s_iter + p - 1e-6:
            out.v("cadence", f"{tag}: successor at {s_next:.6f} is less than one period after the slot that just ran",
                  first=(n_resched == 1 and j.get("defer_until") is not None))
        # the next execution must not start before its slot
        nxt = [x for x in execs if x.t0 > now - 1e-9 and x.step0 > e.step]
        if nxt and nxt[0].t0 < s_next - 0.001:
            out.v("run-before-slot", f"{tag}: next run started at {nxt[0].t0:.6f}, before its slot {s_next:.6f}",
                  broker=case["broker"])
        if i < len(execs):
            durs.add(round(execs[i].t0 - s_iter, 3))
        s_iter = s_next
    # exactly one message with that id
    places = tr.final.get("rec", [])
    if n_resched and len(obs) >= 1 and obs[-1].op == "requeue" and not tr.horizon_hit:
        if len(places) != 1:
            out.v("successor-count", f"after {n_resched} completed iterations {len(places)} copies of the message exist: "
                  f"{[p_.short() for p_ in places]}", copies=len(places))
    elif len(places) > 1 and all(e.done or e.error is not None for e in tr.spy.for_id("rec")):
        # (the scenario ran into the horizon - e.g. because a stray copy kept it from ever settling; with no broker call for the
        #  message under way, two copies are two copies)
        out.v("successor-count", f"after {n_resched} completed iterations {len(places)} copies of the message exist: "
              f"{[p_.short() for p_ in places]}", copies=len(places))
    if n_resched < j["iterations"] and not tr.horizon_hit and not out.violations:
        out.v("too-few-iterations", f"only {n_resched} reschedules observed, expected at least {j['iterations']}")
    if tr.horizon_hit and n_resched < j["iterations"]:
        out.inconclusive = True
    out.nontrivial = n_resched >= 2 and (len(durs) > 1 or len(case["jobs"]) > 1 or j["defer_by"] >= 86400)
    out.cls("broker-" + case["broker"], f"iterations-{n_resched}", "competing" if len(case["jobs"]) > 1 else "alone",
            "deferred_until" if j.get("defer_until") is not None else "plain")
    return out


@st.composite
def long_period_case(draw):
    """Periods of more than a day: only the RabbitMQ model can be simulated that far (its consumer does not poll)."""
    p = draw(st.sampled_from([86400.0, 86400.0 * 1.5, 86400.0 * 2.5, 86400.0 * 7])) + draw(st.integers(0, 7200))
    j = {"id": "rec", "actor": "a_plain", "queue": "q0", "retries": 0, "defer_by": p, "iterations": draw(st.integers(2, 3)),
         "attempts": [{"k": "ret", "v": 1, "sleep": draw(st.sampled_from([0.0, 5.0, 3600.0]))}], "store_result": False,
         "enqueue_at": draw(st.integers(0, 999)) / 1000}
    if draw(st.booleans()):
        j["defer_until"] = draw(st.sampled_from([0.5, 1.5, 3.25])) * 86400.0
    case = {"broker": "amqp", "seed": draw(st.integers(0, 999)), "converter": "basic",
            "actors": [{"name": "a_plain", "queue": "q0", "shape": "plain"}], "policy": {"kind": "table", "values": [0.0]},
            "worker": {"tasks_limit": 1}, "jobs": [j], "lat": [], "monitor_poll": p / 40,
            "horizon": (j.get("defer_until", 0.0) + p * (j["iterations"] + 2)) + 100.0, "max_steps": 400_000}
    return case


from harness.checks.c06_fleet import fleet_case, run_fleet  # noqa: E402  (own module: its actor needs real annotations)


def _s(brokers):
    return lambda: recurring_case(brokers)


CHECK = Check(
    pid="C06",
    level="exploration",
    rule=(
        "(i) parameter-level programmes: period 1 s..1 h at microsecond granularity, optional deferred_until (ahead/past), 2-10 "
        "iterations with delivery-latency/duration profiles (constant, growing, shrinking, random, tiny, longer than the period) and "
        "retry chains; every iteration calls the real _prepare_retry/_prepare_reschedule under a pinned clock. (ii) worker-level: period "
        "1-4 s, 2-4 iterations, failing attempts with retries, competing jobs under tasks_limit=1, three brokers. Oracle: per completed "
        "iteration exactly one successor (one requeue, one copy in the broker), already_tried=0, timestamp == now (TTL restarted at the rescheduling), "
        "now < S_next <= now+p, S_next >= S_prev+p, first run not before deferred_until, no run before its slot (1 ms). "
        "(iii) fleet-*: one recurring job served by 2-3 workers with their own connections, stopped (and replaced) at generated instants "
        "while the others keep running: every slot runs exactly once, slots are a full period apart, one live copy at the end. "
        "Non-trivial = >=3 iterations (worker level >=2) whose latency+duration are not all equal. cron is not exercised (croniter absent)."
    ),
    assumptions=["virtual clock / pinned clock; Redis and RabbitMQ are in-process server models", "cron excluded: croniter not installed"],
    subchecks=[
        SubCheck("cadence", cadence_case, run_cadence, quick=600, thorough=20000),
        SubCheck("mem", _s(("mem",)), run_worker, quick=25, thorough=700),
        SubCheck("redis", _s(("redis",)), run_worker, quick=25, thorough=600),
        SubCheck("amqp", _s(("amqp",)), run_worker, quick=25, thorough=600),
        SubCheck("amqp-long-period", long_period_case, run_worker, quick=12, thorough=400),
        SubCheck("fleet-mem", lambda: fleet_case("mem"), run_fleet, quick=10, thorough=400),
        SubCheck("fleet-redis", lambda: fleet_case("redis"), run_fleet, quick=25, thorough=800),
        SubCheck("fleet-amqp", lambda: fleet_case("amqp"), run_fleet, quick=15, thorough=500),
    ],
)
