"""C07 — What the producer enqueued is what the consumer receives (codecs, key encodings, end to end)."""
# NOTE: no `from __future__ import annotations`: dataclass / pydantic field annotations must be real types.
import asyncio
import dataclasses
import datetime as dt
import json
import string
from datetime import timedelta
from typing import Any, Optional

import pydantic
from hypothesis import strategies as st

from harness import vclock
from harness.brokers import Env, reset_globals
from harness.core import Check, Outcome, SubCheck

US = 1_000_000
Y100_US = 100 * 365 * 86400 * US
_PRINTABLE = [chr(i) for i in range(32, 127)] + ["é", "\n"]
_ACCEPTED: dict = {}


def accepted(which: str) -> tuple[list, list, list]:
    """(first characters, later characters, later characters that are not alphanumeric) the library's own validator accepts.
    The property speaks of "every name the validators accept", so the input domain is read off the validators of the tree
    under test rather than written down here (on the pinned tree: letters and '_' / letters, digits, '_' and '-')."""
    if which not in _ACCEPTED:
        from repid._utils import VALID_ID, VALID_NAME

        pat = VALID_NAME if which == "name" else VALID_ID
        first = [ch for ch in _PRINTABLE if pat.fullmatch(ch)]
        rest = [ch for ch in _PRINTABLE if pat.fullmatch(first[0] + ch)]
        _ACCEPTED[which] = (first, rest, [ch for ch in rest if not ch.isalnum()] or rest)
    return _ACCEPTED[which]


@st.composite
def _lib_text(draw, which, max_size):
    first, rest, special = accepted(which)
    head = draw(st.sampled_from(first))
    tail = draw(st.text(st.one_of(st.sampled_from(rest), st.sampled_from(rest), st.sampled_from(special)), max_size=max_size - 1))
    return head + tail


NAME = _lib_text("name", 13)
IDS = _lib_text("id", 16)
TEXT = st.text(max_size=20)


def td_us():
    return st.one_of(st.integers(0, 10 * US), st.integers(0, Y100_US), st.sampled_from([0, 1, 999_999, US, Y100_US, Y100_US - 1]))


def dt_json():
    """{"us": microseconds after 1971-01-01, "tz": offset seconds or None} -> years 1971..2200"""
    return st.fixed_dictionaries({"us": st.integers(0, 229 * 366 * 86400 * US),
                                  "tz": st.one_of(st.none(), st.none(), st.sampled_from([0, 3600, -18000, 19800, 45900, -43200, 50400]))})


def mk_dt(j: Optional[dict]) -> Optional[dt.datetime]:
    if j is None:
        return None
    d = dt.datetime(1971, 1, 1) + timedelta(microseconds=j["us"])
    if j["tz"] is not None:
        d = d.replace(tzinfo=dt.timezone(timedelta(seconds=j["tz"])))
    return d


def mk_td(us: Optional[int]) -> Optional[timedelta]:
    return None if us is None else timedelta(microseconds=us)


# --------------------------------------------------------------------------------- (a) codecs


@st.composite
def codec_case(draw):
    which = draw(st.sampled_from(["Parameters", "Parameters", "DelayProperties", "ResultProperties", "RetriesProperties",
                                  "ArgsBucket", "ResultBucket"]))
    opt = lambda s: st.one_of(st.none(), s)  # noqa: E731
    c: dict = {"which": which}
    if which in ("Parameters", "DelayProperties"):
        c["delay"] = {"delay_until": draw(opt(dt_json())), "defer_by": draw(opt(td_us())), "cron": draw(opt(st.sampled_from(["5 4 * * *", "* * * * *"]))),
                      "next_execution_time": draw(opt(dt_json()))}
    if which in ("Parameters", "ResultProperties"):
        c["result"] = draw(opt(st.fixed_dictionaries({"id_": IDS, "ttl": opt(td_us())}))) if which == "Parameters" else \
            draw(st.fixed_dictionaries({"id_": IDS, "ttl": opt(td_us())}))
    if which in ("Parameters", "RetriesProperties"):
        c["retries"] = {"max_amount": draw(st.integers(0, 10**6)), "already_tried": draw(st.integers(0, 10**6))}
    if which == "Parameters":
        c["execution_timeout"] = draw(td_us())
        c["timestamp"] = draw(dt_json())
        c["ttl"] = draw(opt(td_us()))
    if which in ("ArgsBucket", "ResultBucket"):
        c["data"] = draw(TEXT)
        c["timestamp"] = draw(dt_json())
        c["ttl"] = draw(opt(td_us()))
    if which == "ResultBucket":
        c["started_when"] = draw(st.integers(0, 2**63))
        c["finished_when"] = draw(st.integers(0, 2**63))
        c["success"] = draw(st.booleans())
        c["exception"] = draw(opt(TEXT))
    return c


def build(c: dict) -> Any:
    from repid.data._buckets import ArgsBucket, ResultBucket
    from repid.data._parameters import DelayProperties, Parameters, ResultProperties, RetriesProperties

    def delay(d):
        return DelayProperties(delay_until=mk_dt(d["delay_until"]), defer_by=mk_td(d["defer_by"]), cron=d["cron"],
                               next_execution_time=mk_dt(d["next_execution_time"]))

    def result(r):
        return None if r is None else ResultProperties(id_=r["id_"], ttl=mk_td(r["ttl"]))

    w = c["which"]
    if w == "Parameters":
        return Parameters(execution_timeout=mk_td(c["execution_timeout"]), result=result(c["result"]),
                          retries=RetriesProperties(**c["retries"]), delay=delay(c["delay"]), timestamp=mk_dt(c["timestamp"]),
                          ttl=mk_td(c["ttl"]))
    if w == "DelayProperties":
        return delay(c["delay"])
    if w == "ResultProperties":
        return result(c["result"])
    if w == "RetriesProperties":
        return RetriesProperties(**c["retries"])
    if w == "ArgsBucket":
        return ArgsBucket(data=c["data"], timestamp=mk_dt(c["timestamp"]), ttl=mk_td(c["ttl"]))
    return ResultBucket(data=c["data"], started_when=c["started_when"], finished_when=c["finished_when"], success=c["success"],
                        exception=c["exception"], timestamp=mk_dt(c["timestamp"]), ttl=mk_td(c["ttl"]))


def run_codec(c: dict) -> Outcome:
    out = Outcome()
    x = build(c)
    try:
        enc = x.encode()
        y = type(x).decode(enc)
    except Exception as e:  # noqa: BLE001
        out.v("codec-raises", f"{c['which']} encode/decode raised {type(e).__name__}: {e} for {x}")
        return out
    if not isinstance(enc, str):
        out.v("codec-type", f"{c['which']}.encode() returned {type(enc).__name__}")
    if y != x:
        out.v("codec-roundtrip", f"{c['which']}: decode(encode(x)) != x\n   x={x}\n   y={y}\n   wire={enc}", which=c["which"])
    elif type(y) is not type(x):
        out.v("codec-type", f"decoded type {type(y).__name__}")
    try:
        if type(x).decode(y.encode()) != x:
            out.v("codec-roundtrip", f"{c['which']}: second round trip differs", which=c["which"])
    except Exception as e:  # noqa: BLE001
        out.v("codec-raises", f"{c['which']} second round trip raised {e!r}")
    nondefault = sum(1 for f in dataclasses.fields(x) if getattr(x, f.name) != (
        f.default if f.default is not dataclasses.MISSING else None))
    out.nontrivial = nondefault >= 3 or c["which"] != "Parameters"
    out.cls(c["which"])
    if c.get("timestamp") and c["timestamp"]["tz"] is not None:
        out.cls("tz-aware-timestamp")
    return out


# --------------------------------------------------------------------------------- (b) key encodings


@st.composite
def key_case(draw):
    def key():
        return {"queue": draw(NAME), "topic": draw(NAME), "id": draw(IDS), "prio": draw(st.one_of(st.sampled_from([0, 5, 9]), st.integers(0, 10**6)))}
    k1 = key()
    k2 = draw(st.one_of(st.builds(key), st.just({**k1, "topic": k1["topic"] + draw(st.sampled_from(["a", "_", "-", "0"]))}),
                        st.just({**k1, "id": k1["id"] + "0"}), st.just({**k1, "queue": k1["queue"] + "_"}),
                        # a queue named like another queue's delayed / dead-letter companion, with every separator the validator lets through
                        st.just({**k1, "queue": k1["queue"] + draw(st.sampled_from(accepted("name")[2]))
                                 + draw(st.sampled_from(["delayed", "dead", "d", "n", "5"]))}),
                        st.just({**k1, "prio": k1["prio"] + 1})))
    return {"k1": k1, "k2": k2}


def run_keys(c: dict) -> Outcome:
    from repid.connections.rabbitmq.utils import qnc as aqnc
    from repid.connections.redis.utils import (full_message_name_from_short, get_queue_marker, mnc, parse_message_name,
                                               parse_short_message_name, qnc)
    from repid.data._key import RoutingKey

    out = Outcome()
    keys = []
    for kj in (c["k1"], c["k2"]):
        try:
            keys.append(RoutingKey(topic=kj["topic"], queue=kj["queue"], priority=kj["prio"], id_=kj["id"]))
        except ValueError as e:
            out.v("valid-key-rejected", f"RoutingKey rejected a valid key {kj}: {e}")
            return out
    def parsed(fn, *args):
        try:
            return fn(*args)
        except Exception as e:  # noqa: BLE001  (a key the validators accepted must be decodable: raising is a wrong answer, not a rejection)
            return f"raised {type(e).__name__}: {e}"

    for k in keys:
        full, short = mnc(k), mnc(k, short=True)
        if parsed(parse_message_name, full) != (k.id_, k.topic, k.queue, k.priority):
            out.v("redis-name-roundtrip", f"parse_message_name(mnc(k))={parsed(parse_message_name, full)} for {k}")
        if parsed(parse_short_message_name, short) != (k.topic, k.id_):
            out.v("redis-short-roundtrip", f"parse_short_message_name({short!r})={parsed(parse_short_message_name, short)} for {k}")
        for kw, marker in (({}, "n"), ({"delayed": True}, "d"), ({"dead": True}, "dead")):
            qn = qnc(k.queue, k.priority, **kw)
            if parsed(full_message_name_from_short, short, qn) != full:
                out.v("redis-full-from-short", f"full_message_name_from_short({short!r}, {qn!r}) != {full!r}")
            if parsed(get_queue_marker, qn) != marker:
                out.v("redis-queue-marker", f"get_queue_marker({qn!r})={parsed(get_queue_marker, qn)!r}, expected {marker!r}")
        if not short.startswith(k.topic + ":"):
            out.v("redis-topic-prefix", f"{short!r} does not start with its topic prefix")
    a, b = keys
    if (a.topic, a.queue, a.priority, a.id_) != (b.topic, b.queue, b.priority, b.id_):
        if mnc(a) == mnc(b):
            out.v("redis-name-collision", f"distinct keys {a} and {b} share the message name {mnc(a)!r}")
        if a.topic != b.topic and mnc(b, short=True).startswith(a.topic + ":"):
            out.v("redis-topic-prefix-collision", f"topic filter {a.topic!r} matches message {mnc(b, short=True)!r} of topic {b.topic!r}")
        names_a = {qnc(a.queue, a.priority), qnc(a.queue, a.priority, delayed=True), qnc(a.queue, a.priority, dead=True)}
        names_b = {qnc(b.queue, b.priority), qnc(b.queue, b.priority, delayed=True), qnc(b.queue, b.priority, dead=True)}
        if (a.queue, a.priority) != (b.queue, b.priority) and names_a & names_b:
            out.v("redis-queue-collision", f"queue names collide: {names_a & names_b}")
        am_a = {aqnc(a.queue), aqnc(a.queue, delayed=True), aqnc(a.queue, dead=True)}
        am_b = {aqnc(b.queue), aqnc(b.queue, delayed=True), aqnc(b.queue, dead=True)}
        if a.queue != b.queue and am_a & am_b:
            out.v("amqp-queue-collision", f"AMQP queue names collide: {am_a & am_b}")
        if len(am_a) != 3:
            out.v("amqp-queue-collision", f"AMQP names of one queue are not distinct: {am_a}")
    out.nontrivial = True
    out.cls("near-miss-pair" if sum(c["k1"][f] != c["k2"][f] for f in c["k1"]) == 1 else "independent-pair")
    return out


# --------------------------------------------------------------------------------- (c) end to end


@dataclasses.dataclass
class Point:
    x: int
    label: str
    when: Optional[dt.datetime] = None
    tags: Optional[list] = None


class Inner(pydantic.BaseModel):
    n: int
    t: Optional[dt.timedelta] = None


class Outer(pydantic.BaseModel):
    name: str
    inner: Inner
    stamps: list[dt.date] = []


json_leaf = st.one_of(st.none(), st.booleans(), st.integers(-10**9, 10**9), st.text(max_size=8),
                      st.floats(-1e6, 1e6, allow_nan=False, allow_infinity=False))
# rich leaves are described as JSON and materialised by `materialise`
rich_leaf = st.one_of(
    json_leaf,
    st.fixed_dictionaries({"$": st.just("datetime"), "v": dt_json()}),
    st.fixed_dictionaries({"$": st.just("date"), "days": st.integers(0, 80000)}),
    st.fixed_dictionaries({"$": st.just("timedelta"), "us": st.integers(0, 10**12)}),
    st.fixed_dictionaries({"$": st.just("point"), "x": st.integers(-9, 9), "label": st.text(max_size=4), "when": st.one_of(st.none(), dt_json()),
                           "tags": st.one_of(st.none(), st.lists(st.integers(0, 9), max_size=3))}),
    st.fixed_dictionaries({"$": st.just("outer"), "name": st.text(max_size=4), "n": st.integers(-9, 9),
                           "t_us": st.one_of(st.none(), st.integers(0, 10**9)), "days": st.lists(st.integers(0, 80000), max_size=2)}),
    st.fixed_dictionaries({"$": st.just("tuple"), "items": st.lists(st.integers(0, 9), max_size=3)}),
)
ARG_KEYS = st.text(string.ascii_lowercase, min_size=1, max_size=5)
rich_value = st.recursive(rich_leaf, lambda ch: st.one_of(st.lists(ch, max_size=3), st.dictionaries(ARG_KEYS, ch, max_size=3)), max_leaves=8)


def materialise(v: Any) -> Any:
    if isinstance(v, list):
        return [materialise(x) for x in v]
    if isinstance(v, dict):
        tag = v.get("$")
        if tag == "datetime":
            return mk_dt(v["v"])
        if tag == "date":
            return dt.date(1971, 1, 1) + timedelta(days=v["days"])
        if tag == "timedelta":
            return timedelta(microseconds=v["us"])
        if tag == "point":
            return Point(v["x"], v["label"], mk_dt(v["when"]), v["tags"])
        if tag == "outer":
            return Outer(name=v["name"], inner=Inner(n=v["n"], t=mk_td(v["t_us"])),
                         stamps=[dt.date(1971, 1, 1) + timedelta(days=d) for d in v["days"]])
        if tag == "tuple":
            return tuple(v["items"])
        return {k: materialise(x) for k, x in v.items()}
    return v


def normalise(v: Any) -> Any:
    """Independent JSON normalisation of an argument value (what the consumer side must see after json.loads)."""
    if isinstance(v, pydantic.BaseModel):
        return json.loads(v.model_dump_json())
    if dataclasses.is_dataclass(v) and not isinstance(v, type):
        return {f.name: normalise(getattr(v, f.name)) for f in dataclasses.fields(v)}
    if isinstance(v, (dt.datetime, dt.date, dt.time)):
        return v.isoformat()
    if isinstance(v, timedelta):
        return v / timedelta(seconds=1)
    if isinstance(v, (list, tuple)):
        return [normalise(x) for x in v]
    if isinstance(v, dict):
        return {k: normalise(x) for k, x in v.items()}
    return v


@st.composite
def e2e_case(draw, broker):
    opt = lambda s: st.one_of(st.none(), s)  # noqa: E731
    args = draw(st.one_of(st.none(), st.dictionaries(ARG_KEYS, rich_value, max_size=4),
                          st.fixed_dictionaries({"$": st.just("point"), "x": st.integers(-9, 9), "label": st.text(max_size=4),
                                                 "when": st.none(), "tags": st.none()}),
                          st.fixed_dictionaries({"$": st.just("outer"), "name": st.text(max_size=4), "n": st.integers(-9, 9),
                                                 "t_us": st.none(), "days": st.lists(st.integers(0, 80000), max_size=2)})))
    c = {"broker": broker, "seed": draw(st.integers(0, 2**16)), "name": draw(NAME), "queue": draw(NAME), "id": draw(IDS),
         "prio": draw(st.sampled_from([0, 5, 9])), "retries": draw(st.integers(0, 9)),
         "timeout_us": draw(st.one_of(st.just(600 * US), st.integers(US, 10**11))),
         "ttl_us": draw(opt(st.integers(US, 10**11))),
         "deferred_until_ago_us": draw(opt(st.integers(0, 10**9))),
         "store_result": draw(st.booleans()), "result_id": draw(IDS), "result_ttl_us": draw(opt(st.integers(US, 10**10))),
         "args": args, "bucket": draw(st.booleans()) if broker in ("mem", "redis", "amqp") else False,
         # (the bucket must outlive the scenario, ~25 virtual seconds; an expired argument bucket is outside this property)
         "args_ttl_us": draw(opt(st.integers(120 * US, 10**10))), "phase_us": draw(st.integers(0, 999_999))}
    # a second job, enqueued over another connection after the first one was executed; with bucket transport it re-uses the
    # first job's explicit args_id (the documented way of sharing / replacing stored arguments)
    c["second"] = draw(st.one_of(st.none(), st.dictionaries(ARG_KEYS, rich_value, min_size=1, max_size=3)))
    # the consumer replaces the message it holds (requeue with a corrected payload): the next delivery carries the new one
    # the worker is already consuming when the job is enqueued, and the producer's bucket store is slower than the worker's lookup
    c["worker_first"] = draw(st.integers(0, 3)) == 0
    c["requeue"] = draw(st.one_of(st.none(), st.none(), st.dictionaries(ARG_KEYS, st.integers(-9, 9), min_size=1, max_size=3)))
    # the worker's first look-up of the argument bucket fails (a transient storage error): whatever the worker does with that
    # delivery, the actor is never called with anything but the job's arguments, and a later delivery still carries them
    c["bucket_fault"] = draw(st.integers(0, 3)) == 0
    # a priority outside the three named levels (a routing key accepts any non-negative integer; the broker API takes routing keys)
    c["raw_prio"] = draw(st.sampled_from([None, None, None, None, 1, 10, 42, 255]))
    if broker != "mem":
        c["lat"] = draw(st.lists(st.sampled_from([0.0, 0.001]), max_size=6))
    return c


async def _e2e(loop, c, out: Outcome):
    from repid import BasicConverter, Job, MessageCategory, PrioritiesT, Queue, Router, Worker

    reset_globals()
    env = Env(c["broker"], loop, c["seed"])
    conn = env.connection("c0", c.get("lat"), buckets=True)
    await conn.connect()
    await asyncio.sleep(c["phase_us"] / 1e6)
    await Queue(c["queue"], _connection=conn).declare()
    if c.get("raw_prio") is not None:
        from repid.data._key import RoutingKey
        from repid.data._parameters import Parameters

        key0 = RoutingKey(topic=c["name"], queue=c["queue"], priority=c["raw_prio"], id_=c["id"])
        p0 = Parameters()
        await conn.message_broker.enqueue(key0, '{"x": 1}', p0)
        cons0 = conn.message_broker.get_consumer(c["queue"], None, None, MessageCategory.NORMAL)
        await cons0.start()
        try:
            k0, pl0, pr0 = await asyncio.wait_for(cons0.consume(), timeout=3.0)
        except asyncio.TimeoutError:
            # (Redis keeps one list per priority and polls the three named levels only: another level is simply never looked at -
            #  nothing is delivered wrongly, and delivery of unnamed levels is not this property's business)
            out.cls("raw-priority-not-polled")
            await cons0.finish()
            return
        if (k0.id_, k0.topic, k0.queue, k0.priority) != (key0.id_, key0.topic, key0.queue, key0.priority) or pl0 != '{"x": 1}' or pr0 != p0:
            out.v("consumed-key", f"enqueued {key0} with payload {{\"x\": 1}}, consumed {k0} {pl0!r}", broker=c["broker"], raw_priority=True)
        await conn.message_broker.ack(k0)
        await cons0.finish()
        out.nontrivial = True
        out.cls("broker-" + c["broker"], "raw-priority")
        return
    args = None if c["args"] is None else materialise(c["args"])
    now = vclock.VDateTime.now()
    kw: dict = {"name": c["name"], "queue": c["queue"], "priority": PrioritiesT(c["prio"]), "id_": c["id"], "retries": c["retries"],
                "timeout": mk_td(c["timeout_us"]), "ttl": mk_td(c["ttl_us"]), "store_result": c["store_result"],
                "result_id": c["result_id"], "result_ttl": mk_td(c["result_ttl_us"]), "use_args_bucketer": c["bucket"],
                "args_ttl": mk_td(c["args_ttl_us"]), "_connection": conn}
    if args is not None:
        kw["args"] = args
        if c["bucket"]:
            kw["args_id"] = "args-" + c["id"]  # (an explicit args_id without bucket transport means "already stored")
    if c["deferred_until_ago_us"] is not None:
        kw["deferred_until"] = now - timedelta(microseconds=c["deferred_until_ago_us"])
    if c.get("worker_first") and c["bucket"] and args is not None and c["broker"] != "amqp" and c["deferred_until_ago_us"] is not None:
        # (deferred_until in the past = immediately deliverable)
        got0: list = []
        router0 = Router()

        async def catch0(**kwargs: Any) -> None:
            got0.append(kwargs)

        router0.actor(catch0, name=c["name"], queue=c["queue"], converter=BasicConverter)
        w0 = Worker(routers=[router0], messages_limit=1, handle_signals=[], _connection=conn)
        wt = asyncio.ensure_future(w0.run())
        await asyncio.sleep(0.3)
        prod = conn if c["broker"] == "mem" else env.connection("p1", None, buckets=True, bucket_lat=[0.05, 0.05, 0.05, 0.05])
        if prod is not conn:
            await prod.connect()
        await Job(**{**kw, "_connection": prod}).enqueue()
        try:
            await asyncio.wait_for(wt, timeout=20.0)
        except asyncio.TimeoutError:
            out.v("not-executed", "a worker that was already consuming did not execute the job within 20 s")
            return
        if len(got0) != 1 or got0[0] != normalise(args):
            out.v("actor-arguments", f"worker already consuming, arguments through a bucket: actor received {got0!r}, expected "
                  f"{normalise(args)!r}", broker=c["broker"], worker_first=True)
        out.nontrivial = True
        out.cls("broker-" + c["broker"], "worker-first")
        return
    job = Job(**kw)
    ekey, epayload, eparams = await job.enqueue()
    # what Job.enqueue() returns must itself reflect the configuration
    if (ekey.id_, ekey.topic, ekey.queue, ekey.priority) != (c["id"], c["name"], c["queue"], c["prio"]):
        out.v("enqueue-key", f"Job.enqueue() returned key {ekey} for {c}")
    if (eparams.execution_timeout != kw["timeout"] or eparams.ttl != kw["ttl"] or eparams.retries.max_amount != c["retries"]
            or eparams.retries.already_tried != 0 or (eparams.result is None) == c["store_result"]
            or (c["store_result"] and (eparams.result.id_ != c["result_id"] or eparams.result.ttl != kw["result_ttl"]))
            or eparams.delay.delay_until != kw.get("deferred_until")):
        out.v("enqueue-params", f"Job.enqueue() returned parameters {eparams} that do not reflect the job settings {kw}")
    b = conn.message_broker
    cons = b.get_consumer(c["queue"], None, None, MessageCategory.NORMAL)
    await cons.start()
    try:
        key, payload, params = await asyncio.wait_for(cons.consume(), timeout=3.0)
    except asyncio.TimeoutError:
        out.v("not-delivered", f"enqueued job was not delivered within 3 s; places {[p.short() for p in env.probe().get(c['id'], [])]}")
        await cons.finish()
        return
    if (key.id_, key.topic, key.queue) != (ekey.id_, ekey.topic, ekey.queue):
        out.v("consumed-key", f"consumed key {key} != enqueued key {ekey}", broker=c["broker"])
    if key.priority != ekey.priority:
        out.v("consumed-priority", f"consumed priority {key.priority} != enqueued priority {ekey.priority}", broker=c["broker"],
              enqueued=ekey.priority)
    if params != eparams:
        out.v("consumed-params", f"consumed parameters differ:\n   got      {params}\n   enqueued {eparams}", broker=c["broker"])
    # payload: resolve the bucket marker like a consumer does
    from repid._utils import _ArgsBucketInMessageId

    resolved = payload
    if c["bucket"] and args is not None:
        if not _ArgsBucketInMessageId.check(payload):
            out.v("bucket-marker", f"bucket transport requested but payload is not a bucket reference: {payload!r}")
        else:
            bucket = await conn.args_bucket_broker.get_bucket(_ArgsBucketInMessageId.deconstruct(payload))
            if bucket is None:
                out.v("bucket-missing", "argument bucket not found")
                resolved = None
            else:
                resolved = bucket.data
                if bucket.ttl != kw["args_ttl"]:
                    out.v("bucket-ttl", f"argument bucket ttl {bucket.ttl} != {kw['args_ttl']}")
    if resolved is not None and resolved != epayload:
        out.v("consumed-payload", f"consumed payload {resolved!r} != enqueued payload {epayload!r}", broker=c["broker"])
    if args is not None and resolved is not None:
        try:
            if json.loads(resolved) != normalise(args):
                out.v("payload-normal-form", f"payload {resolved!r} does not decode to the normalised arguments {normalise(args)!r}")
        except Exception as e:  # noqa: BLE001
            out.v("payload-normal-form", f"payload {resolved!r} is not JSON: {e}")
    requeued = None
    if c.get("requeue") is not None and not (c["bucket"] and args is not None):
        requeued = json.dumps(c["requeue"])
        await b.requeue(key, requeued, params)
        try:
            key2, payload2, params2 = await asyncio.wait_for(cons.consume(), timeout=3.0)
        except asyncio.TimeoutError:
            out.v("not-delivered", f"requeued job was not delivered within 3 s; places {[p.short() for p in env.probe().get(c['id'], [])]}")
            await cons.finish()
            return
        if payload2 != requeued:
            out.v("consumed-payload", f"after requeue with payload {requeued!r} the consumer received {payload2!r}", broker=c["broker"],
                  requeue=True)
        if params2 != params or (key2.id_, key2.topic, key2.queue, key2.priority) != (key.id_, key.topic, key.queue, key.priority):
            out.v("consumed-params", f"after requeue: key/parameters differ: {key2} {params2} vs {key} {params}", broker=c["broker"], requeue=True)
        key = key2
        out.cls("requeued-new-payload")
    await b.reject(key)
    await cons.finish()
    await asyncio.sleep(0.15)
    # through a worker into an actor
    got: list = []
    router = Router()

    async def catch_all(**kwargs: Any) -> None:
        got.append(kwargs)

    router.actor(catch_all, name=c["name"], queue=c["queue"], converter=BasicConverter)
    expected = {} if args is None else normalise(args)
    if requeued is not None:
        expected = c["requeue"]
    # (the detour takes a few virtual seconds: a job whose time-to-live is shorter than that would simply expire)
    if (c.get("bucket_fault") and c["bucket"] and args is not None and requeued is None and conn.args_bucket_broker is not None
            and (c["ttl_us"] is None or c["ttl_us"] > 60 * US)):
        ab = conn.args_bucket_broker
        orig_get = ab.get_bucket
        state = {"n": 0}

        async def flaky_get(*a: Any, **k: Any) -> Any:
            state["n"] += 1
            if state["n"] == 1:
                raise ConnectionError("argument storage unreachable")
            return await orig_get(*a, **k)

        ab.get_bucket = flaky_get  # type: ignore[method-assign]
        wf = Worker(routers=[router], messages_limit=1, handle_signals=[], graceful_shutdown_time=1.0, _connection=conn)
        rt = asyncio.ensure_future(wf.run())
        await asyncio.sleep(2.0)
        if not rt.done():
            hs = loop.sig_handlers.get(int(__import__("signal").SIGTERM))
            if hs is not None:
                hs[0](*hs[1])
        try:
            await asyncio.wait_for(rt, timeout=20.0)
        except asyncio.TimeoutError:
            out.v("worker-stuck", "worker did not return after the stop signal (a failed argument look-up before)")
            return
        except Exception:  # noqa: BLE001  (how the worker reports the storage error is not this property's business)
            pass
        ab.get_bucket = orig_get  # type: ignore[method-assign]
        for g in got:
            if isinstance(expected, dict) and g != expected:
                out.v("actor-arguments", f"after a failed look-up of the argument bucket the actor was called with {g!r}, expected "
                      f"{expected!r} (or no call at all)", broker=c["broker"], bucket_fault=True)
                return
        out.cls("bucket-look-up-failed-once")
        if got:
            return  # the worker retried the look-up itself and ran the actor with the right arguments: nothing left to deliver
    w = Worker(routers=[router], messages_limit=1, handle_signals=[], _connection=conn)
    try:
        await asyncio.wait_for(w.run(), timeout=20.0)
    except asyncio.TimeoutError:
        out.v("not-executed", "worker did not execute the job within 20 s")
        return
    if len(got) != 1:
        out.v("not-executed", f"actor ran {len(got)} times")
    elif isinstance(expected, dict) and got[0] != expected:
        out.v("actor-arguments", f"actor received {got[0]!r}, expected {expected!r}", broker=c["broker"])
    if c.get("second") is not None and len(got) == 1:
        args2 = materialise(c["second"])
        if c["broker"] == "amqp":
            prod = conn  # (the AMQP environment has per-connection in-memory bucket brokers: nothing is shared between connections)
        else:
            prod = env.connection("p1", None, buckets=True)
            await prod.connect()
        kw2 = {"name": c["name"], "queue": c["queue"], "id_": c["id"] + "-2", "args": args2, "use_args_bucketer": c["bucket"],
               "_connection": prod}
        if c["bucket"]:
            kw2["args_id"] = "args-" + c["id"]
        await Job(**kw2).enqueue()
        w2 = Worker(routers=[router], messages_limit=1, handle_signals=[], _connection=conn)
        try:
            await asyncio.wait_for(w2.run(), timeout=20.0)
        except asyncio.TimeoutError:
            out.v("not-executed", "worker did not execute the second job within 20 s")
            return
        if len(got) != 2:
            out.v("not-executed", f"actor ran {len(got) - 1} times for the second job")
        elif got[1] != normalise(args2):
            out.v("actor-arguments", f"second job (same args_id: {c['bucket']}) - actor received {got[1]!r}, expected {normalise(args2)!r}; "
                  f"first job's arguments were {got[0]!r}", broker=c["broker"], second=True)
        out.cls("second-job-shared-args-id" if c["bucket"] and args is not None else "second-job")
    nondef = sum(x is not None for x in (c["ttl_us"], c["deferred_until_ago_us"], c["result_ttl_us"])) + (c["retries"] > 0) + \
        (c["timeout_us"] != 600 * US) + c["store_result"]
    out.nontrivial = nondef >= 3 or (args is not None and _depth(c["args"]) >= 2) or (c["bucket"] and args is not None)
    out.cls("broker-" + c["broker"], "bucket" if c["bucket"] and args is not None else "inline", f"prio-{c['prio']}",
            "no-args" if args is None else "args")


def _depth(v: Any) -> int:
    if isinstance(v, dict) and "$" not in v:
        return 1 + max([_depth(x) for x in v.values()] + [0])
    if isinstance(v, list):
        return 1 + max([_depth(x) for x in v] + [0])
    return 0


def run_e2e(c: dict) -> Outcome:
    out = Outcome()
    try:
        vclock.run(lambda loop: _e2e(loop, c, out), max_steps=300_000)
    except (vclock.StepLimit, vclock.Deadlock) as e:
        out.inconclusive = True
        out.info["watchdog"] = str(e)
    return out


def _e(b):
    return lambda: e2e_case(b)


CHECK = Check(
    pid="C07",
    level="exploration",
    rule=(
        "(a) codec round trips decode(encode(x))==x for Parameters/DelayProperties/ResultProperties/RetriesProperties/ArgsBucket/"
        "ResultBucket built from generated fields: durations in [0,100y] at microsecond precision, naive and tz-aware datetimes "
        "1971-2200, names and ids over the alphabets the validators of the tree under test accept (read off VALID_NAME / VALID_ID at run time), every None/non-None combination. (b) key encodings for pairs of valid keys "
        "(including near-miss pairs differing in one field by one character): Redis mnc/parse/short/full/marker round trips, "
        "injectivity, topic-prefix filter matches only its own topic, AMQP queue names distinct. (c) end to end per broker: Job with "
        "generated settings and arguments (nested JSON, dataclass, pydantic models, dates, durations, tuples), inline or through an "
        "argument bucket -> enqueue() -> consume(): consumed key/priority/payload/parameters equal what enqueue() returned and the job "
        "settings; then through a Worker into a **kwargs actor: received arguments equal an independent JSON normalisation. "
        "Non-trivial: (a) >=3 non-default fields, (c) >=3 non-default settings or nesting >=2 or bucket transport."
    ),
    assumptions=["virtual clock; Redis and RabbitMQ are in-process server models (wire encoding of redis-py / pamqp below the client API is not exercised)",
                 "NaN/inf and non-string dict keys are not generated (not JSON); payloads starting with the reserved bucket marker are excluded by construction"],
    subchecks=[
        SubCheck("codec", codec_case, run_codec, quick=800, thorough=30000),
        SubCheck("keys", key_case, run_keys, quick=800, thorough=30000),
        SubCheck("e2e-mem", _e("mem"), run_e2e, quick=40, thorough=1500),
        SubCheck("e2e-redis", _e("redis"), run_e2e, quick=40, thorough=1500),
        SubCheck("e2e-amqp", _e("amqp"), run_e2e, quick=40, thorough=1500),
    ],
)
