"""C13 — The stored result is the outcome of the latest execution."""
from __future__ import annotations

import json
from datetime import timedelta

from hypothesis import strategies as st

from harness import gen, model, scenario, vclock
from harness.core import Check, Outcome, SubCheck
from harness.scenario import _params_of

TERMINAL = ("ack", "nack", "reject", "requeue")


@st.composite
def result_case(draw, brokers, with_fault):
    case = draw(gen.worker_case(brokers=brokers, max_jobs=4, tasks_limits=(1, 2, 1000),
                                actors_pool=[a for a in gen.ACTOR_POOL if a["shape"] in ("plain", "dep", "dep2", "req")]))
    for j in case["jobs"]:
        if draw(st.integers(0, 4)) != 0:
            j["store_result"] = True
        if j["store_result"]:
            j["result_ttl"] = draw(st.sampled_from(["unset", "unset", None, 1, 5, 3600]))
    if with_fault:
        case["fault_store_call"] = draw(st.integers(0, 5))
    else:
        # the producer reads Job.result on its Job object after every execution, not only once at the end
        case["read_results_early"] = draw(st.booleans())
    return gen.finalize(case)


def expected_result(j: dict, steps: list, n_obs: int):
    exp = None
    for s in steps[:n_obs]:
        if s.result is not None:
            exp = s.result
    return exp


def check_results(out: Outcome, tr: scenario.Trace, case: dict) -> None:
    allowed = {"r-" + j["id"] for j in case["jobs"] if j.get("store_result")}
    for e in tr.spy.events:
        if e.op == "store_bucket" and e.who.endswith(":rb"):
            bid = e.args[0] if e.args else e.kwargs.get("id_")
            if bid not in allowed:
                out.v("stored-when-disabled", f"store_bucket({bid!r}) on the results broker, but only {sorted(allowed)} store results")
                break
    for j in case["jobs"]:
        id_ = j["id"]
        obs = tr.spy.for_id(id_, TERMINAL)
        steps, end = model.chain({**j, "iterations": 10**9} if j.get("defer_by") is not None else j,
                                 case.get("policy"), max_deliveries=max(len(obs), 1))
        stores = [e for e in tr.spy.events if e.op == "store_bucket" and (e.args[0] if e.args else e.kwargs.get("id_")) == "r-" + id_]
        got = tr.results.get(id_)
        tag = f"job {id_} (store_result={j.get('store_result')}, deliveries={len(obs)})"
        if not j.get("store_result"):
            if stores:
                out.v("stored-when-disabled", f"{tag}: {len(stores)} store_bucket calls although results are disabled")
            if got is not None and not isinstance(got, Exception):
                out.v("result-when-disabled", f"{tag}: Job.result returned {got}")
            continue
        if isinstance(got, Exception):
            out.v("result-raises", f"{tag}: Job.result raised {got!r}")
            continue
        if tr.horizon_hit or any(x.end in ("running", "cancelled") for x in tr.execs_of(id_)):
            continue
        exp = expected_result(j, steps, len(obs))
        if exp is None:
            if got is not None:
                out.v("unexpected-result", f"{tag}: no execution should have stored a result, Job.result={got}")
            continue
        ttl_cfg = j.get("result_ttl", "unset")
        want_ttl = timedelta(days=1) if ttl_cfg == "unset" else (None if ttl_cfg is None else timedelta(seconds=ttl_cfg))
        done_stores = [e for e in stores if e.done]
        if want_ttl is not None and done_stores and tr.final_t >= done_stores[-1].t + want_ttl.total_seconds() - 1.0:
            out.cls("expired-before-read")  # the bucket's own time-to-live ran out before we read it: unconstrained
            continue
        if got is None:
            out.v("missing-result", f"{tag}: expected stored outcome {exp}, Job.result is None")
            continue
        if got.started_when > got.finished_when:
            out.v("result-times", f"{tag}: started_when {got.started_when} > finished_when {got.finished_when}")
        if got.ttl != want_ttl:
            out.v("result-ttl", f"{tag}: bucket ttl {got.ttl}, configured {want_ttl}")
        # the time-to-live counts from the bucket's timestamp, which repid reads as host-local wall-clock time like every other
        # naive datetime it keeps: it lies between the start of the latest execution and the completion of its store call
        xs = tr.execs_of(id_)
        if want_ttl is not None and xs and done_stores and got.timestamp is not None:
            ts = vclock.secs(got.timestamp)
            lo, hi = min(x.t0 for x in xs), (done_stores[-1].t_done if done_stores[-1].t_done is not None else tr.final_t)
            if not lo - 1e-3 <= ts <= hi + 1e-3:
                out.v("result-ttl-anchor", f"{tag}: the bucket's timestamp {got.timestamp} is t={ts:.3f} in host-local time, outside "
                      f"[{lo:.3f}, {hi:.3f}] (first start .. store completed): its time-to-live {got.ttl} runs from the wrong instant",
                      tz=tr.case.get("tz"))
        if exp[0] == "ok":
            try:
                data = json.loads(got.data) if got.data is not None else None
            except Exception:  # noqa: BLE001
                data = ("<undecodable>", got.data)
            if not got.success or got.exception is not None or data != exp[1]:
                out.v("result-value", f"{tag}: expected success with data {exp[1]!r}, got success={got.success} data={got.data!r} "
                      f"exception={got.exception!r}", kind="ok")
        elif exp[0] == "err":
            if got.success or got.exception != _exc_name(exp[1]) or (exp[2] is not None and got.data != exp[2]):
                out.v("result-value", f"{tag}: expected failure {exp[1]}({exp[2]!r}), got success={got.success} data={got.data!r} "
                      f"exception={got.exception!r}", kind="err")
        elif exp[0] == "err-timeout":
            if got.success or got.exception not in ("TimeoutError", "CancelledError"):
                out.v("result-value", f"{tag}: expected a timeout failure, got success={got.success} exception={got.exception!r}", kind="timeout")
        elif exp[0] == "err-any":
            if got.success or not got.exception:
                out.v("result-value", f"{tag}: expected a failure, got success={got.success} exception={got.exception!r}", kind="any")


def _exc_name(n: str) -> str:
    return {"TimeoutError": "TimeoutError", "CustomError": "CustomError"}.get(n, n)


def _classify(out: Outcome, case: dict) -> None:
    multi = eager = False
    for j in case["jobs"]:
        if not j.get("store_result"):
            continue
        steps, _ = model.chain(j, case.get("policy"))
        if sum(1 for s in steps if s.result is not None) >= 2:
            multi = True
        if any(s.kind == "eager" and s.result is not None for s in steps):
            eager = True
    out.nontrivial = multi or eager or "fault_store_call" in case
    out.cls("overwrite-chain" if multi else "single-write", "eager-result" if eager else "no-eager-result",
            "broker-" + case["broker"], "fault" if "fault_store_call" in case else "no-fault")


def run(case: dict) -> Outcome:
    out = Outcome()
    _classify(out, case)
    try:
        tr = scenario.run_case(case)
    except (vclock.StepLimit, vclock.Deadlock) as e:
        out.inconclusive = True
        out.info["watchdog"] = str(e)
        return out
    if tr.run_error is not None:
        out.v("worker-died", f"Worker.run() raised {tr.run_error!r}")
    check_results(out, tr, case)
    return out


def _dispositions(tr: scenario.Trace, case: dict) -> dict:
    d = {}
    for j in case["jobs"]:
        seq = []
        for e in tr.spy.for_id(j["id"], TERMINAL):
            p = _params_of(e)
            seq.append((e.op, None if p is None or e.op != "requeue" else p.retries.already_tried))
        d[j["id"]] = (seq, sorted(p.kind for p in tr.final.get(j["id"], [])))
    return d


def run_fault(case: dict) -> Outcome:
    """Differential: the k-th result store_bucket call raises; dispositions and places must equal the fault-free run."""
    out = Outcome()
    _classify(out, case)
    k = case["fault_store_call"]
    base_case = {kk: v for kk, v in case.items() if kk != "fault_store_call"}

    def hook(trace, worker):
        counter = {"n": 0}

        def fault(ev):
            if ev.who.endswith(":rb"):
                counter["n"] += 1
                if counter["n"] - 1 == k:
                    trace.extra["fault_hit"] = True
                    return ConnectionError("result store unavailable")
            return None

        trace.spy.faults["store_bucket"] = fault

    try:
        ref = scenario.run_case(base_case)
        tr = scenario.run_case(case, hook=hook)
    except (vclock.StepLimit, vclock.Deadlock) as e:
        out.inconclusive = True
        out.info["watchdog"] = str(e)
        return out
    if not tr.extra.get("fault_hit"):
        out.cls("fault-not-reached")
        out.nontrivial = False
        return out
    if tr.horizon_hit and not ref.horizon_hit:
        # the same scenario finished well inside the horizon without the fault, and with it the worker was still not done 15 s of
        # simulated time after the model's estimate: the failed store stopped it (or part of it)
        undone = [j["id"] for j in case["jobs"] if len(tr.execs_of(j["id"])) < len(ref.execs_of(j["id"]))]
        out.v("worker-stalled-after-store-failure", f"without the fault the scenario settled at t={ref.final_t:.3f}; with result store call "
              f"{case['fault_store_call']} failing it ran into the horizon {case.get('horizon')}: executions missing for {undone}",
              missing=bool(undone))
        return out
    if ref.horizon_hit:
        out.inconclusive = True
        return out
    if tr.run_error is not None:
        out.v("worker-died-on-store-failure", f"Worker.run() raised {tr.run_error!r} after a result store failure")
    for e in tr.errors:
        out.v("worker-stuck", e)
    a, b = _dispositions(ref, base_case), _dispositions(tr, case)
    for id_ in a:
        # recurring jobs may run a different number of iterations before the stop; compare the common prefix
        sa, sb = a[id_][0], b[id_][0]
        j = scenario.job_of(case, id_)
        if j.get("defer_by") is not None:
            n = min(len(sa), len(sb))
            sa, sb = sa[:n], sb[:n]
            same_place = True
        else:
            same_place = a[id_][1] == b[id_][1]
        if sa != sb or not same_place:
            out.v("store-failure-changed-disposition",
                  f"job {id_}: without fault {a[id_]}, with the {k}-th store_bucket call failing {b[id_]}",
                  eager=any(o.get("k") == "eager" for o in j.get("attempts", [])))
    return out


# ----------------------------------------------------------------------------- results under a stop request


def stop_case():
    from harness.checks import c03

    idx = [i for i, c in enumerate(c03.POOL) if any(j.get("store_result") for j in c["jobs"])]
    # the forced cancellation comes `graceful` after the signal: with graceful 0 a signal a few loop steps *before* the store
    # begins makes the cancellation land inside it - those scenarios are drawn more often
    idx = idx + [i for i in idx if c03.POOL[i]["worker"]["graceful"] == 0.0] * 3
    return st.fixed_dictionaries({"broker": st.sampled_from(["mem", "redis", "amqp"]), "scenario": st.sampled_from(idx),
                                  "frac": st.floats(0.0, 1.0, allow_nan=False), "delta": st.integers(-12, 6)})


def enumerate_stop(tier: str, shard: int, nshards: int):
    from harness.checks import c03

    n = 0
    for broker in ("mem", "redis", "amqp"):
        for i, c in enumerate(c03.POOL):
            if not any(j.get("store_result") for j in c["jobs"]):
                continue
            n += 1
            if n % nshards != shard:
                continue
            lo, hi = c03.dry_run(c03.scenario_for(broker, i))
            for k in range(lo, hi + 1):
                yield {"broker": broker, "scenario": i, "step": k}


def run_stop(case: dict) -> Outcome:
    """A finished and reported execution must have its result stored even if the worker is being stopped meanwhile."""
    import signal

    from harness.checks import c03

    out = Outcome()
    base = c03.scenario_for(case["broker"], case["scenario"])
    try:
        lo, hi = c03.dry_run(base)
    except (vclock.StepLimit, vclock.Deadlock):
        out.inconclusive = True
        return out
    if "step" in case:
        k = case["step"]
    else:
        # aim at the result-store calls of the uninterrupted run
        d = scenario.run_case(base)
        stores = sorted(e.step for e in d.spy.events if e.op == "store_bucket" and lo <= e.step <= hi)
        k = (stores[min(len(stores) - 1, int(case["frac"] * len(stores)))] + case["delta"]) if stores else lo + int(case["frac"] * (hi - lo))
        k = max(lo, min(hi, k))
    info: dict = {}

    def hook(trace, worker):
        loop = trace.env.loop

        def fire():
            info["sent"] = loop.send_signal(signal.SIGTERM)
            info["t"] = loop.time()
            if info["sent"]:
                trace.stop_requested_at = loop.time()
                trace.extra["stop_injected"] = True

        loop.inject_at_step(k, fire)

    try:
        tr = scenario.run_case(base, hook=hook)
    except (vclock.StepLimit, vclock.Deadlock):
        out.inconclusive = True
        return out
    hit = False
    for j in base["jobs"]:
        if not j.get("store_result"):
            continue
        id_ = j["id"]
        evs = [e for e in tr.spy.for_id(id_, TERMINAL) if e.done and e.op != "reject" and e.caller != "_hand_back"]
        reported = [e for e in evs if e.caller == "report_to_broker"]
        if not reported:
            continue
        got = tr.results.get(id_)
        stores = [e for e in tr.spy.events if e.op == "store_bucket" and (e.args[0] if e.args else e.kwargs.get("id_")) == "r-" + id_]
        if any(not e.done for e in stores):
            hit = True
        if got is None or isinstance(got, Exception):
            out.v("result-lost-at-shutdown", f"[scenario {case['scenario']}, stop signal at loop step {k}] job {id_}: its execution "
                  f"finished and was reported ({[e.op for e in reported]}) but no result is stored (store_bucket calls: "
                  f"{[(e.done, e.error) for e in stores]})", broker=case["broker"])
    out.nontrivial = bool(info.get("sent"))
    out.cls("broker-" + case["broker"], "store-interrupted" if hit else "store-not-interrupted")
    return out


def _s(brokers, fault=False):
    return lambda: result_case(brokers, fault)


CHECK = Check(
    pid="C13",
    level="exploration",
    rule=(
        "C02's generated worker scenarios restricted to result-relevant shapes (return values, exception type x text, timeouts, failing "
        "conversion/provider, retry chains and recurring iterations that overwrite, eager responses with sequences of "
        "set_result/set_exception, result ttl unset/None/seconds, store_result on/off), in-memory and Redis-model bucket brokers. Oracle: "
        "after quiescence Job.result equals the model's outcome of the latest finished execution (success flag, JSON-decoded data or "
        "str(exception), exception type name, started<=finished, configured ttl); disabled => no store_bucket call and result None. "
        "Fault sub-check: the k-th store_bucket call raises; terminal-call sequence and final place of every message must equal the "
        "fault-free run of the same scenario and the worker must survive. Non-trivial = >=2 executions writing the same result id, an "
        "eager result, or an injected fault that was reached."
    ),
    assumptions=["virtual clock; Redis is an in-process server model; AMQP scenarios use the in-memory bucket brokers (repid has no AMQP bucket broker)"],
    subchecks=[
        SubCheck("mem", _s(("mem",)), run, quick=60, thorough=1500),
        SubCheck("redis", _s(("redis",)), run, quick=30, thorough=700),
        SubCheck("amqp", _s(("amqp",)), run, quick=15, thorough=400),
        SubCheck("fault", _s(("mem", "redis"), True), run_fault, quick=40, thorough=1000),
        SubCheck("stop", stop_case, run_stop, quick=25, thorough=0, enumerate_cases=enumerate_stop, exhaustive=True),
    ],
)
