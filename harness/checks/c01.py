"""C01 — Broker operations never lose or duplicate a message (model-based histories + cancellation)."""
from __future__ import annotations

from hypothesis import strategies as st

from harness import brokerops, names, vclock
from harness.core import Check, Outcome, SubCheck

OWNED = {
    "lost", "duplicated", "acked-still-present", "held-not-held", "held-by-other", "stranded-in-flight", "held-after-finish",
    "live-dead-lettered", "dead-resurrected", "early-waiting", "stored-payload", "stored-params", "delivered-payload",
    "delivered-params", "delivered-key", "cancel-atomicity", "requeue-torn", "phantom-message", "phantom-delivery",
    "delivered-after-ack", "dead-delivered-normal", "live-via-dead", "not-delayed-via-delayed", "harness-exception",
}

QUEUES = ["qa", "qb", "qc"]
TOPICS = ["t0", "t1", "t2"]
PAYLOAD = st.text(alphabet='ab{}":, é\\', max_size=8)
# (a few round values on purpose: messages enqueued at one instant with the same delay share their due time to the microsecond)
DELTA = st.one_of(
    st.one_of(st.integers(-2000, 0), st.integers(1, 999), st.integers(1000, 30000)).flatmap(
        lambda ms: st.integers(0, 999).map(lambda us: ms / 1000 + us / 1e6)),
    st.sampled_from([0.5, 0.5, 2.0, -1.0]))


def cancel():
    return st.one_of(st.none(), st.none(), st.none(), st.none(), st.none(), st.integers(0, 14))


def enq_op(queues):
    delay = st.one_of(st.none(), st.none(), st.fixed_dictionaries({"kind": st.sampled_from(["net", "net", "until"]), "delta": DELTA}))
    return st.fixed_dictionaries({
        "op": st.just("enq"), "q": st.sampled_from(queues), "topic": st.sampled_from(TOPICS), "prio": st.sampled_from([0, 5, 9]),
        "delay": delay, "payload": PAYLOAD, "client": st.sampled_from(["p0", "c0"]), "cancel_after": cancel(),
        "retries": st.integers(0, 3),
        # some messages carry a time-to-live that may run out while they wait or are held: an expired message is dead-lettered
        # when a consumer meets it - one place like any other
        "ttl": st.sampled_from([None, None, None, None, None, None, 0.3, 1.0, 5.0]),
    })


def start_op(queues, clients):
    return st.fixed_dictionaries({
        "op": st.just("start"), "q": st.sampled_from(queues), "client": st.sampled_from(clients),
        "topics": st.one_of(st.none(), st.none(), st.lists(st.sampled_from(TOPICS), min_size=1, max_size=2, unique=True)),
        "category": st.sampled_from(["NORMAL", "NORMAL", "NORMAL", "DELAYED", "DEAD"]),
        "max_unacked": st.sampled_from([None, 1, 2, 5]),
    })


def pieces(queues, clients):
    idx = st.integers(0, 5)
    consume = st.fixed_dictionaries({"op": st.just("consume"), "c": idx, "patience": st.sampled_from([0.05, 0.5, 0.5, 1.2])})
    ack = st.fixed_dictionaries({"op": st.just("ack"), "c": idx, "i": idx, "cancel_after": cancel()})
    nack = st.fixed_dictionaries({"op": st.just("nack"), "c": idx, "i": idx, "cancel_after": cancel()})
    reject = st.fixed_dictionaries({"op": st.just("reject"), "c": idx, "i": idx, "cancel_after": cancel()})
    requeue = st.fixed_dictionaries({"op": st.just("requeue"), "c": idx, "i": idx, "cancel_after": cancel(), "payload": PAYLOAD,
                                     "delay": st.one_of(st.none(), st.fixed_dictionaries({"kind": st.just("net"), "delta": DELTA}))})
    finish = st.fixed_dictionaries({"op": st.just("finish"), "c": idx})
    advance = st.fixed_dictionaries({"op": st.just("advance"), "dt": st.sampled_from([0.01, 0.1, 0.5, 1.0, 2.0, 5.0, 31.0])})
    terminal = st.one_of(ack, nack, reject, requeue)
    return consume, terminal, finish, advance


@st.composite
def history(draw, broker):
    queues = QUEUES[: draw(st.sampled_from([1, 1, 2, 3]))]
    clients = ["c0"] if broker == "mem" else ["c0", "c1"]
    consume, terminal, finish, advance = pieces(queues, clients)
    ops = [draw(enq_op(queues)) for _ in range(draw(st.integers(1, 6)))]
    if draw(st.integers(0, 4)) == 0:
        # several messages of different topics due at the very same instant, looked at through a (filtered) DELAYED / NORMAL consumer
        shared = {"kind": "net", "delta": draw(st.sampled_from([0.5, 2.0, 30.0, -1.0]))}
        for t in list(draw(st.permutations(TOPICS)))[: draw(st.integers(2, 3))]:
            ops.append({**draw(enq_op(queues)), "q": queues[0], "topic": t, "delay": shared, "cancel_after": None, "client": "p0"})
        ops.append({**draw(start_op(queues, clients)), "q": queues[0], "category": draw(st.sampled_from(["DELAYED", "DELAYED", "NORMAL"])),
                    "topics": draw(st.one_of(st.none(), st.lists(st.sampled_from(TOPICS), min_size=1, max_size=2, unique=True)))})
    first = draw(start_op(queues, clients))
    if draw(st.integers(0, 3)) != 0:
        first = {**first, "q": queues[0], "topics": None}
    ops.append(first)
    if draw(st.booleans()):
        second = draw(start_op(queues, clients))
        if draw(st.booleans()):
            second = {**second, "q": first["q"], "topics": first["topics"], "category": first["category"]}
        ops.append(second)
    for _ in range(draw(st.integers(2, 12))):
        r = draw(st.integers(0, 19))
        if r < 9:
            ops.append(draw(consume))
            ops.append(draw(terminal))
        elif r < 12:
            ops.append(draw(consume))
        elif r < 14:
            ops.append(draw(terminal))
        elif r < 16:
            ops.append(draw(enq_op(queues)))
        elif r < 18:
            ops.append(draw(advance))
        elif r < 19:
            ops.append(draw(start_op(queues, clients)))
        else:
            ops.append(draw(finish))
        if draw(st.integers(0, 14)) == 0:
            # consumption paused and resumed (what a saturated worker does): nothing may be lost or duplicated by it
            pc = draw(st.integers(0, 3))
            ops.append({"op": "pause", "c": pc})
            for _ in range(draw(st.integers(0, 2))):
                ops.append(draw(st.one_of(enq_op(queues), advance)))
            if draw(st.integers(0, 3)) == 0:
                # ... or never resumed: the consumer is finished while paused (whatever it was sent meanwhile goes back)
                ops.append({"op": "advance", "dt": draw(st.sampled_from([0.01, 0.5]))})
                ops.append({"op": "finish", "c": pc})
            else:
                ops.append({"op": "unpause", "c": pc})
        if draw(st.integers(0, 9)) == 0:
            # a second application object over the same broker connects it again (idempotent): held messages stay settleable
            ops.append({"op": "reconnect", "client": draw(st.sampled_from(clients))})
        if draw(st.integers(0, 5)) == 0:
            # several consume() calls in flight at once (two clients racing for the same messages), then collected
            for c in draw(st.lists(st.integers(0, 3), min_size=2, max_size=3, unique=True)):
                ops.append({"op": "launch", "c": c})
            ops.append({"op": "collect", "patience": draw(st.sampled_from([0.05, 0.5]))})
            ops.append(draw(terminal))
    case = {"broker": broker, "seed": draw(st.integers(0, 2**16)), "ops": ops}
    if draw(st.integers(0, 3)) == 0:
        names.rename_history(case, draw(st.sampled_from(names.STYLES)))  # legal but unusual queue / topic / message names
    if draw(st.integers(0, 5)) == 0:
        case["log"] = "DEBUG"  # host application logging at DEBUG: the library's log lines are all formatted
    if draw(st.integers(0, 5)) == 0:
        case["tz"] = draw(st.sampled_from(vclock.zones(3)))
    if broker != "mem":
        lat = st.lists(st.sampled_from([0.0, 0.0, 0.001, 0.002, 0.005]), max_size=25)
        case["lat"] = {"p0": draw(lat), "c0": draw(lat), "c1": draw(lat)}
    return case


def classify(out: Outcome, case: dict, w: brokerops.World | None) -> None:
    ops = case["ops"]
    kinds = [o["op"] for o in ops]
    terminals = {k for k in kinds if k in ("ack", "nack", "reject", "requeue")}
    out.cls("broker-" + case["broker"])
    if w is not None:
        done_terms = {e["op"]["op"] for e in w.events if e["op"]["op"] in ("ack", "nack", "reject", "requeue") and "id" in e}
        handed = any(("id" in e and e["op"]["op"] == "consume") or e.get("collected") for e in w.events)
        noncat = any(c.category != "NORMAL" for c in w.cons)
        out.nontrivial = handed and bool(done_terms) and (len(done_terms) >= 2 or w.cancel_effective > 0 or noncat)
        if w.cancel_effective:
            out.cls("cancellation-took-effect")
        if noncat:
            out.cls("non-normal-category")
        for t in sorted(done_terms):
            out.cls("did-" + t)
        if any(e.get("timeout") for e in w.events):
            out.cls("consume-timeout")
    else:
        out.nontrivial = False


def run(case: dict) -> Outcome:
    out = Outcome()
    w = None
    try:
        w = brokerops.run(case, max_steps=250_000)
    except vclock.StepLimit as e:
        if "virtual time" in str(e):
            out.inconclusive = True
        else:
            # these histories need a few thousand loop steps; hundreds of thousands mean a broker call spins without progress
            out.v("livelock", f"history did not finish within the loop-step watchdog ({e}): a broker call spins without making progress",
                  broker=case["broker"])
        return out
    except vclock.Deadlock as e:
        out.inconclusive = True
        out.info["watchdog"] = str(e)
        return out
    classify(out, case, w)
    seen = set()
    for kind, msg, facts in w.viol:
        if kind in OWNED and kind not in seen:
            seen.add(kind)
            out.v(kind, msg, **facts)
    return out


# ------------------------------------------------------------------------------ a long-lived consumer beside a held message


@st.composite
def long_lived_case(draw, broker):
    """Consumer A took message X once and gave it back; consumer B (same process, same broker object) holds X now.  A then works
    through a backlog of 1000+ other messages (book-keeping tables roll over, caches are pruned) and finishes.  X must still be
    exactly where it is: held by B."""
    return {"broker": broker, "seed": draw(st.integers(0, 2**16)), "n": draw(st.sampled_from([60, 999, 1001, 1040])),
            "how": draw(st.sampled_from(["reject", "requeue"])), "b_category": "NORMAL",
            "lat": draw(st.lists(st.sampled_from([0.0, 0.001]), max_size=6))}


async def _long_lived(loop, case, out: Outcome):
    import asyncio

    from harness.brokers import Env, reset_globals
    from repid import MessageCategory
    from repid.data._key import RoutingKey
    from repid.data._parameters import Parameters

    reset_globals()
    env = Env(case["broker"], loop, case["seed"])
    conn = env.connection("w0", case["lat"] if case["broker"] != "mem" else None, buckets=False)
    await conn.connect()
    b = conn.message_broker
    await b.queue_declare("ql")
    xk = RoutingKey(topic="t", queue="ql", priority=5, id_="X")
    await b.enqueue(xk, "x", Parameters())
    ca = b.get_consumer("ql", None, None, MessageCategory.NORMAL)
    await ca.start()
    cb = None

    async def take(c, patience=1.0):
        try:
            return await asyncio.wait_for(c.consume(), timeout=patience)
        except asyncio.TimeoutError:
            return None

    got = await take(ca)
    if got is None or got[0].id_ != "X":
        out.inconclusive = True
        await ca.finish()
        return
    cb = b.get_consumer("ql", None, 1, MessageCategory.NORMAL)
    await cb.start()
    holder = None
    for _ in range(8):
        if case["how"] == "reject":
            await b.reject(got[0])
        else:
            await b.requeue(got[0], "x", Parameters())
        # whoever gets it next: B keeps it, A gives it back once more
        tb = asyncio.ensure_future(take(cb, 0.8))
        ta = asyncio.ensure_future(take(ca, 0.8))
        rb, ra = await asyncio.gather(tb, ta)
        if rb is not None and ra is not None:
            out.v("double-delivery", "message X was handed to both consumers at once")
            return
        if rb is not None:
            holder = "B"
            break
        if ra is None:
            out.v("lost", f"message X was returned ({case['how']}) and not delivered again; places "
                  f"{[p.short() for p in env.probe().get('X', [])]}", broker=case["broker"])
            return
        got = ra
    if holder != "B":
        out.inconclusive = True
        await asyncio.gather(ca.finish(), cb.finish())
        return
    # B is busy with X: it takes nothing more (a Redis / RabbitMQ consumer would otherwise prefetch part of the backlog)
    await cb.pause()
    await asyncio.sleep(0.2)
    for i in range(case["n"]):
        await b.enqueue(RoutingKey(topic="t", queue="ql", priority=5, id_=f"n{i}"), "", Parameters())
    done = 0
    while done < case["n"]:
        r = await take(ca, 2.0)
        if r is None:
            break
        if r[0].id_ == "X":
            out.v("double-delivery", "message X, held by consumer B, was handed to consumer A", broker=case["broker"])
            return
        await b.ack(r[0])
        done += 1
    if done < case["n"]:
        out.v("lost", f"only {done} of {case['n']} backlog messages reached consumer A", broker=case["broker"])
        return
    await ca.finish()
    await asyncio.sleep(0.3)
    kinds = [p.kind for p in env.probe().get("X", [])]
    if kinds != ["held"]:
        out.v("held-message-moved", f"after consumer A (which had taken and returned X long ago, then processed {case['n']} other messages) "
              f"finished, message X - held by consumer B - is in {kinds}", broker=case["broker"], n=case["n"])
        return
    await b.ack(xk)
    await cb.finish()
    await asyncio.sleep(0.3)
    left = env.probe().get("X", [])
    if left:
        out.v("acked-still-present", f"message X was acknowledged by its holder but is in {[p.short() for p in left]}", broker=case["broker"])
    out.nontrivial = case["n"] > 1000
    out.cls("broker-" + case["broker"], f"n-{case['n']}", "how-" + case["how"])


def run_long_lived(case: dict) -> Outcome:
    out = Outcome()
    try:
        vclock.run(lambda loop: _long_lived(loop, case, out), max_steps=6_000_000)
    except (vclock.StepLimit, vclock.Deadlock) as e:
        out.inconclusive = True
        out.info["watchdog"] = str(e)
    return out


def _s(broker):
    return lambda: history(broker)


# ----------------------------------------------------------------------------- exhaustive cancellation points over a pool of pre-states

ENQ = {"op": "enq", "q": "qa", "topic": "t0", "prio": 5, "delay": None, "payload": "p", "client": "p0"}


def prestates() -> list:
    n = lambda **kw: {**ENQ, **kw}  # noqa: E731
    start = lambda cat="NORMAL", mu=None, client="c0": {"op": "start", "q": "qa", "client": client, "topics": None, "category": cat,  # noqa: E731
                                                       "max_unacked": mu}
    cons = {"op": "consume", "c": 0, "patience": 1.2}
    far = {"kind": "net", "delta": 25.0}
    return [
        ("normal-1", [n(), start(), cons]),
        ("normal-3-second-held", [n(), n(payload="b"), n(payload="c"), start(mu=1), cons, dict(cons)]),
        ("normal-prio0", [n(prio=0), start(), cons]),
        ("normal-prio9-prefetch2", [n(prio=9), n(prio=9), start(mu=2), cons]),
        ("delayed-taken-via-delayed", [n(delay=far), start("DELAYED"), cons]),
        ("due-delayed-taken-via-normal", [n(delay={"kind": "net", "delta": -1.0}), {"op": "advance", "dt": 1.2}, start(), cons]),
        ("dead-taken-via-dead", [n(), start(), cons, {"op": "nack", "c": 0, "i": 0}, start("DEAD"), {"op": "consume", "c": 1, "patience": 1.2}]),
        ("other-client", [n(client="c0"), start(client="c1"), cons]),
        ("with-waiting-behind", [n(), n(payload="w1"), n(delay=far), start(mu=1), cons]),
        ("retry-params", [n(retries=3), start(), cons]),
    ]


def actions() -> list:
    return [
        ("ack", {"op": "ack", "c": 0, "i": 0}),
        ("nack", {"op": "nack", "c": 0, "i": 0}),
        ("reject", {"op": "reject", "c": 0, "i": 0}),
        ("requeue", {"op": "requeue", "c": 0, "i": 0, "payload": "new", "delay": None}),
        ("requeue-delayed", {"op": "requeue", "c": 0, "i": 0, "payload": "new", "delay": {"kind": "net", "delta": 3.0}}),
        ("enqueue", {**ENQ, "payload": "extra"}),
        ("enqueue-delayed", {**ENQ, "payload": "extra", "delay": {"kind": "net", "delta": 3.0}}),
        ("consume", {"op": "consume", "c": 0, "patience": 0.5}),
        ("finish", None),
    ]


MAX_K = 24


def cancel_cases(broker: str):
    for pname, pre in prestates():
        for aname, act in actions():
            if act is None:
                continue
            for k in range(0, MAX_K + 1):
                ops = [dict(o) for o in pre]
                if aname == "consume":
                    ops.append({**ENQ, "payload": "later"})
                ops.append({**act, "cancel_after": k})
                ops += [{"op": "advance", "dt": 0.3}, {"op": "consume", "c": 0, "patience": 0.5}, {"op": "advance", "dt": 1.5}]
                yield {"broker": broker, "seed": 0, "ops": ops, "pre": pname, "action": aname, "k": k,
                       "lat": {"p0": [], "c0": [0.0, 0.001] if k % 2 else [], "c1": []} if broker != "mem" else None}


def enumerate_cancel(broker: str):
    def gen(tier: str, shard: int, nshards: int):
        for i, c in enumerate(cancel_cases(broker)):
            if i % nshards == shard:
                yield c
    return gen


def cancel_strategy(broker: str):
    cases = list(cancel_cases(broker))
    return lambda: st.sampled_from(range(len(cases))).map(lambda i: cases[i])


def run_cancel(case: dict) -> Outcome:
    out = run(case)
    out.classes = [c for c in out.classes if not c.startswith("did-")]
    out.cls("pre-" + case.get("pre", "?"), "action-" + case.get("action", "?"))
    return out


CHECK = Check(
    pid="C01",
    level="fault_enumeration",
    rule=(
        "Model-based histories of broker-API calls: 1-3 queues, topics from a pool of 3, priorities {0,5,9}, ops = enqueue (no delay / "
        "next_execution_time=now+d / delay_until=now+d, d in -2..30 s at microsecond phase), start_consumer(queue, topics|None, "
        "NORMAL|DELAYED|DEAD, max_unacked), consume(patience), ack|nack|reject|requeue on a held message, finish(consumer), "
        "advance(dt); any broker call may be cancelled after k in 0..14 loop steps; in-memory, Redis-model and AMQP-model brokers, "
        "two clients on Redis/AMQP. Oracle: lifecycle model + transition monitor probing broker-side state after every op: every "
        "enqueued, not-acked id in exactly one place, acked ids nowhere, held ids held, dead ids dead, stored/delivered payload and "
        "parameters equal the model, a cancelled call leaves the pre- or the post-state, after finishing every consumer nothing is "
        "left in flight without a holder. Non-trivial = a hand-over followed by a terminal action and (>=2 terminal kinds, an effective "
        "cancellation, or a non-NORMAL category). distinct = distinct op list."
    ),
    assumptions=[
        "virtual clock; Redis and RabbitMQ are in-process server models",
        "well-behaved clients: terminal actions only on held messages, distinct ids, queues declared, nack only on messages taken "
        "from the NORMAL category (the message API refuses it elsewhere)",
        "after a cancelled call the client drops the handle; the model adopts what the probe shows among {pre, post}",
        "physical waiting/delayed placement of an already-due message is not constrained",
    ],
    subchecks=[
        SubCheck("mem", _s("mem"), run, quick=120, thorough=3000),
        SubCheck("redis", _s("redis"), run, quick=80, thorough=2000),
        SubCheck("amqp", _s("amqp"), run, quick=80, thorough=2000),
        SubCheck("long-lived-mem", lambda: long_lived_case("mem"), run_long_lived, quick=2, thorough=60),
        SubCheck("long-lived-redis", lambda: long_lived_case("redis"), run_long_lived, quick=2, thorough=60),
        SubCheck("long-lived-amqp", lambda: long_lived_case("amqp"), run_long_lived, quick=3, thorough=80),
        SubCheck("cancel-mem", cancel_strategy("mem"), run_cancel, quick=40, thorough=0, enumerate_cases=enumerate_cancel("mem"), exhaustive=True),
        SubCheck("cancel-redis", cancel_strategy("redis"), run_cancel, quick=40, thorough=0, enumerate_cases=enumerate_cancel("redis"), exhaustive=True),
        SubCheck("cancel-amqp", cancel_strategy("amqp"), run_cancel, quick=40, thorough=0, enumerate_cases=enumerate_cancel("amqp"), exhaustive=True),
    ],
)
