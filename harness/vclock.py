"""Virtual-time event loop and clock patching for repid (DESIGN.md §2.1, §2.2).

* ``VLoop``: a SelectorEventLoop whose ``time()`` is simulated.  When nothing is
  ready the clock jumps to the next timer.  Steps (``_run_once`` iterations) are
  counted; callbacks can be injected at an exact step.
* ``install()``: rebinds ``datetime`` / ``time`` inside every loaded ``repid.*``
  module (and dataclass default factories captured in closures) to read the
  simulated clock of the *current* VLoop.  Nothing in /repo is modified.
"""
from __future__ import annotations

import asyncio
import datetime as _dt
import sys
import time as _time
import types
from typing import Any, Callable

EPOCH = _dt.datetime(2030, 1, 1, 0, 0, 0)
_EPOCH_TS = 1893456000.0  # 2030-01-01T00:00:00 with TZ=UTC (asserted in install())


class Deadlock(RuntimeError):
    """Loop has no ready callback, no timer and no outstanding executor job."""


class StepLimit(RuntimeError):
    """Per-case watchdog on loop steps / virtual time tripped."""


_current: "VLoop | None" = None


def current() -> "VLoop":
    assert _current is not None, "no VLoop active"
    return _current


def vnow_s() -> float:
    """Seconds of virtual time since EPOCH (0.0 when no VLoop is active)."""
    if _current is None:
        return 0.0
    us = getattr(_current, "_vus", None)
    if us is not None:
        return us / 1e6
    return _current._vtime


def vnow_us() -> int:
    """Integer microseconds of virtual time since EPOCH."""
    if _current is None:
        return 0
    us = getattr(_current, "_vus", None)
    if us is not None:
        return int(us)
    return round(_current._vtime * 1e6)


class Pinned:
    """A clock pinned at an exact integer microsecond (for pure-function checks, no loop)."""

    def __init__(self, us: int) -> None:
        self._vus = int(us)
        self._vtime = us / 1e6

    def __enter__(self) -> "Pinned":
        global _current
        install()
        set_host_tz(None)
        self._prev = _current
        _current = self  # type: ignore[assignment]
        return self

    def __exit__(self, *exc: Any) -> None:
        global _current
        _current = self._prev

    def set(self, us: int) -> None:
        self._vus = int(us)
        self._vtime = us / 1e6


def vnow() -> _dt.datetime:
    return VDateTime.now()


class VLoop(asyncio.SelectorEventLoop):
    def __init__(self, max_steps: int = 2_000_000, max_vtime: float = 1e7, jitter_seed: int | None = None) -> None:
        super().__init__()
        # optional deterministic timer jitter (<= 40 us per timer, PRNG seeded per case): real event loops never fire two
        # 1 ms polling loops in perfect lockstep for ever; without it some starvation patterns are artefacts of exactness
        self._jitter = None
        if jitter_seed is not None:
            import random as _random

            self._jitter = _random.Random(jitter_seed)
        self._vtime = 0.0
        self.steps = 0
        self.max_steps = max_steps
        self.max_vtime = max_vtime
        self._injections: dict[int, list[Callable[[], None]]] = {}
        self._step_hooks: list[Callable[[int], None]] = []
        self._executor_jobs = 0
        self.thread_time = False
        self.sig_handlers: dict[int, tuple] = {}
        orig = self._selector.select

        def select(timeout: float | None = None) -> Any:
            ev = orig(0)
            if ev or timeout == 0:
                return ev
            if self._executor_jobs > 0:
                # a thread-pool job is running: wait in *real* time, virtual time frozen
                waited = 0.0
                while not ev:
                    ev = orig(0.002)
                    waited += 0.002
                    if not ev and self.thread_time and timeout is not None and timeout > 0:
                        # opt-in (scenarios whose threads block on each other): timers keep firing while threads run,
                        # virtual time follows real time in 2 ms steps
                        self._vtime += min(timeout, 0.002)
                        return ev
                    if waited > 30.0:
                        raise Deadlock("executor job did not finish within 30 s real time")
                return ev
            if timeout is None:
                raise Deadlock("nothing scheduled")
            if timeout > 0:
                self._vtime += timeout
                if self._vtime > self.max_vtime:
                    raise StepLimit(f"virtual time limit {self.max_vtime} exceeded")
            return []

        self._selector.select = select  # type: ignore[method-assign]

    # ---- clock
    def time(self) -> float:
        return self._vtime

    def call_at(self, when: float, callback: Any, *args: Any, context: Any = None) -> Any:  # type: ignore[override]
        if self._jitter is not None:
            when += self._jitter.random() * 40e-6
        return super().call_at(when, callback, *args, context=context)

    # ---- step counting / injection
    def _run_once(self) -> None:  # type: ignore[override]
        self.steps += 1
        if self.steps > self.max_steps:
            raise StepLimit(f"step limit {self.max_steps} exceeded")
        inj = self._injections.pop(self.steps, None)
        if inj:
            for fn in inj:
                fn()
        for h in self._step_hooks:
            h(self.steps)
        super()._run_once()

    def inject_at_step(self, step: int, fn: Callable[[], None]) -> None:
        """Run fn() at the beginning of loop iteration number `step` (absolute)."""
        self._injections.setdefault(step, []).append(fn)

    def inject_after(self, steps: int, fn: Callable[[], None]) -> None:
        self.inject_at_step(self.steps + max(1, steps), fn)

    def add_step_hook(self, fn: Callable[[int], None]) -> None:
        self._step_hooks.append(fn)

    # ---- signals: recorded, never installed (the harness "sends" them by calling the handler)
    def add_signal_handler(self, sig: Any, callback: Any, *args: Any) -> None:  # type: ignore[override]
        self.sig_handlers[int(sig)] = (callback, args)

    def remove_signal_handler(self, sig: Any) -> bool:  # type: ignore[override]
        return self.sig_handlers.pop(int(sig), None) is not None

    def send_signal(self, sig: Any = 15) -> bool:
        h = self.sig_handlers.get(int(sig))
        if h is None:
            return False
        h[0](*h[1])
        return True

    # ---- executor accounting
    def run_in_executor(self, executor: Any, func: Any, *args: Any) -> Any:  # type: ignore[override]
        fut = super().run_in_executor(executor, func, *args)
        self._executor_jobs += 1

        def _done(_f: Any) -> None:
            self._executor_jobs -= 1

        fut.add_done_callback(_done)
        return fut


class VDateTime(_dt.datetime):
    """datetime whose now()/utcnow()/today() read the virtual clock (naive = UTC)."""

    @classmethod
    def now(cls, tz: Any = None) -> "VDateTime":  # type: ignore[override]
        d = EPOCH + _dt.timedelta(microseconds=vnow_us())
        if tz is not None:
            r = cls(d.year, d.month, d.day, d.hour, d.minute, d.second, d.microsecond)
            return r.replace(tzinfo=_dt.timezone.utc).astimezone(tz)  # type: ignore[return-value]
        d = d + _dt.timedelta(seconds=_HOST_OFFSET_S)  # naive = local time of the simulated host zone
        return cls(d.year, d.month, d.day, d.hour, d.minute, d.second, d.microsecond)

    @classmethod
    def utcnow(cls) -> "VDateTime":  # type: ignore[override]
        d = EPOCH + _dt.timedelta(microseconds=vnow_us())  # naive UTC wall clock, whatever the host zone
        return cls(d.year, d.month, d.day, d.hour, d.minute, d.second, d.microsecond)

    @classmethod
    def today(cls) -> "VDateTime":  # type: ignore[override]
        return cls.now()


def to_v(d: _dt.datetime) -> VDateTime:
    return VDateTime(d.year, d.month, d.day, d.hour, d.minute, d.second, d.microsecond, d.tzinfo)


# Host time zone of the simulated machine (fixed offset, seconds east of UTC).  repid works with naive *local* datetimes and
# converts them with .timestamp(); under a non-UTC zone the two views must still agree.  Set through run(tz=...).
_HOST_OFFSET_S = 0


def _zone_offset(tz: str) -> tuple[int, int]:
    """(seconds east of UTC at EPOCH, days around EPOCH over which that offset stays in force) of a POSIX zone string as the C
    library applies it: 'EST5' -> -18000, 'IST-5:30' -> +19800, 'NZST-12NZDT,M9.5.0,M4.1.0/3' -> +46800 (daylight-saving time
    is in force there in January; time.timezone says -43200).  A case must stay inside the reach: naive local datetimes are
    ambiguous across a transition, which is outside what the properties promise."""
    import os

    prev = os.environ.get("TZ")
    os.environ["TZ"] = tz
    _time.tzset()
    try:
        off = _time.localtime(_EPOCH_TS).tm_gmtoff
        reach = next((d - 1 for d in range(1, 1200) if _time.localtime(_EPOCH_TS - d * 86400).tm_gmtoff != off
                      or _time.localtime(_EPOCH_TS + d * 86400).tm_gmtoff != off), 1200)
        return off, reach
    finally:
        if prev is None:
            os.environ.pop("TZ", None)
        else:
            os.environ["TZ"] = prev
        _time.tzset()


_OFFSETS: dict[str, tuple[int, int]] = {}
# fixed offsets (west, east with a half hour, beyond +12) and two zones that are on daylight-saving time at EPOCH (time.timezone
# differs from the offset in force; constant for 94 / 47 days around EPOCH)
ZONES = ["EST5", "IST-5:30", "NZT-13"]
ZONES_DST = ["NZST-12NZDT,M9.5.0,M4.1.0/3", "BRT3BRST,M10.3.0/0,M2.3.0/0"]


def zones(reach_days: float = 1e9) -> list[str]:
    """Host zones whose offset is constant for reach_days around EPOCH (what a generator may draw from)."""
    out = list(ZONES)
    for z in ZONES_DST:
        if z not in _OFFSETS:
            _OFFSETS[z] = _zone_offset(z)
        if _OFFSETS[z][1] >= reach_days:
            out.append(z)
    return out


def set_host_tz(tz: str | None) -> None:
    global _HOST_OFFSET_S
    import os

    want = tz or "UTC"
    if tz and tz not in _OFFSETS:
        _OFFSETS[tz] = _zone_offset(tz)
    off = _OFFSETS[tz][0] if tz else 0
    if os.environ.get("TZ") != want or _HOST_OFFSET_S != off:
        os.environ["TZ"] = want
        _time.tzset()
    _HOST_OFFSET_S = off
    vt = globals().get("_vt")
    if vt is not None:  # the zone constants of the time module the library sees follow tzset() like the real ones
        vt.timezone, vt.altzone, vt.daylight, vt.tzname = _time.timezone, _time.altzone, _time.daylight, _time.tzname


def at(seconds: float) -> VDateTime:
    """Naive (host-local) virtual datetime `seconds` after EPOCH (rounded to the microsecond)."""
    d = EPOCH + _dt.timedelta(microseconds=round(seconds * 1e6)) + _dt.timedelta(seconds=_HOST_OFFSET_S)
    return to_v(d)


def secs(d: _dt.datetime) -> float:
    """Inverse of at(): seconds since EPOCH for a naive (host-local) datetime."""
    return (d.replace(tzinfo=None) - EPOCH).total_seconds() - _HOST_OFFSET_S if d.tzinfo is None else (
        d.astimezone(_dt.timezone.utc).replace(tzinfo=None) - EPOCH
    ).total_seconds()


_vt = types.ModuleType("time")
_vt.__dict__.update(_time.__dict__)
_vt.time = lambda: _EPOCH_TS + vnow_s()  # type: ignore[attr-defined]
_vt.time_ns = lambda: (int(_EPOCH_TS) * 1_000_000 + vnow_us()) * 1000  # type: ignore[attr-defined]
_vt.perf_counter = lambda: vnow_s()  # type: ignore[attr-defined]
_vt.monotonic = lambda: vnow_s()  # type: ignore[attr-defined]
_vt.localtime = lambda secs=None: _time.localtime(_vt.time() if secs is None else secs)  # type: ignore[attr-defined]
_vt.gmtime = lambda secs=None: _time.gmtime(_vt.time() if secs is None else secs)  # type: ignore[attr-defined]

_installed = False
_patched_cells = 0


def install() -> int:
    """Patch every loaded repid.* module once per process. Returns #closure cells patched."""
    global _installed, _patched_cells
    if _installed:
        return _patched_cells
    assert abs(EPOCH.timestamp() - _EPOCH_TS) < 1e-6, "run with TZ=UTC"
    import repid  # noqa: F401
    import repid.connections.in_memory.consumer  # noqa: F401

    for opt in (
        "repid.connections.redis.message_broker",
        "repid.connections.redis.consumer",
        "repid.connections.redis.bucket_broker",
        "repid.connections.rabbitmq.message_broker",
        "repid.connections.rabbitmq.consumer",
        "repid.testing.modifiers",
    ):
        try:
            __import__(opt)
        except Exception:  # noqa: BLE001  optional broker deps
            pass

    mods = [m for n, m in list(sys.modules.items()) if n.startswith("repid") and m is not None]
    for m in mods:
        if getattr(m, "datetime", None) is _dt.datetime:
            m.datetime = VDateTime  # type: ignore[attr-defined]
        if getattr(m, "time", None) is _time:
            m.time = _vt  # type: ignore[attr-defined]
        # `from time import perf_counter, time` style
        if getattr(m, "time", None) is _time.time:
            m.time = _vt.time  # type: ignore[attr-defined]
        if getattr(m, "perf_counter", None) is _time.perf_counter:
            m.perf_counter = _vt.perf_counter  # type: ignore[attr-defined]
    n = 0
    for m in mods:
        for _name, obj in list(vars(m).items()):
            if isinstance(obj, type) and hasattr(obj, "__dataclass_fields__"):
                init = obj.__dict__.get("__init__")
                if init is None or not getattr(init, "__closure__", None):
                    continue
                for cell in init.__closure__:
                    try:
                        c = cell.cell_contents
                    except ValueError:
                        continue
                    if getattr(c, "__self__", None) is _dt.datetime and getattr(c, "__name__", "") == "now":
                        cell.cell_contents = VDateTime.now
                        n += 1
                    elif c is _time.time:
                        cell.cell_contents = _vt.time
                        n += 1
                    elif c is _time.perf_counter:
                        cell.cell_contents = _vt.perf_counter
                        n += 1
    _installed = True
    _patched_cells = n
    return n


def run(coro_fn: Callable[..., Any], *args: Any, max_steps: int = 2_000_000, max_vtime: float = 1e7,
        start: float = 0.0, jitter_seed: int | None = None, thread_time: bool = False, tz: str | None = None) -> Any:
    """Run `await coro_fn(loop, *args)` on a fresh VLoop; always tears the loop down.
    tz: POSIX zone string ('EST5', 'IST-5:30', or permanent daylight-saving time 'EST5EDT,0/0,J365/25') of the simulated host; default UTC."""
    global _current
    install()
    # (the zone stays in force after the run: the check's oracle converts the datetimes it collected with at()/secs();
    #  the next run - or a Pinned clock - sets its own)
    set_host_tz(tz)
    loop = VLoop(max_steps=max_steps, max_vtime=max_vtime, jitter_seed=jitter_seed)
    loop._vtime = start
    loop.thread_time = thread_time
    prev = _current
    _current = loop
    asyncio.set_event_loop(loop)
    try:
        return loop.run_until_complete(coro_fn(loop, *args))
    finally:
        try:
            _teardown(loop)
        finally:
            _current = prev
            asyncio.set_event_loop(None)


def _teardown(loop: VLoop) -> None:
    loop.max_steps = loop.steps + 200_000
    loop.max_vtime = float("inf")
    loop._injections.clear()
    loop._step_hooks.clear()
    try:
        for _ in range(5):
            tasks = [t for t in asyncio.all_tasks(loop) if not t.done()]
            if not tasks:
                break
            for t in tasks:
                t.cancel()
            try:
                loop.run_until_complete(asyncio.gather(*tasks, return_exceptions=True))
            except (Deadlock, StepLimit):
                break
            except BaseException:  # noqa: BLE001
                pass
        try:
            loop.run_until_complete(loop.shutdown_asyncgens())
        except BaseException:  # noqa: BLE001
            pass
    finally:
        loop.close()


async def quiesce(loop: VLoop, max_virtual: float = 0.0, max_steps: int = 2000) -> None:
    """Let already-scheduled callbacks run (a bounded number of zero-time yields)."""
    for _ in range(50):
        await asyncio.sleep(0)
    if max_virtual > 0:
        await asyncio.sleep(max_virtual)
