"""Hypothesis strategies for worker scenarios (shared by C02, C04, C06, C09, C10, C13 ...)."""
from __future__ import annotations

from hypothesis import strategies as st

from harness import model, names, vclock

EXC_NAMES = ["ValueError", "KeyError", "CustomError", "TimeoutError", "RuntimeError"]
RARE_EXC: list = []  # extended by checks that can judge them (C02: an exception whose str() raises)
# exception texts: some look like templates (repid formats its log lines with str.format over an "extra" dict; the text of an
# exception is data and must never be interpreted)
EXC_TEXT = st.one_of(st.text("abc xyz", max_size=6), st.sampled_from(["{}", "{0}", "{x}", "{a", "}", "%s", "%(x)s", '{"k": 1}']))
EAGER_ACTIONS = ["ack", "nack", "reject", "reschedule", "retry", "force_retry"]

json_leaf = st.one_of(st.none(), st.booleans(), st.integers(-1000, 1000), st.text("abcxyz é", max_size=5),
                      st.floats(-100, 100, allow_nan=False, allow_infinity=False).map(lambda f: round(f, 3)))
json_value = st.recursive(json_leaf, lambda ch: st.one_of(st.lists(ch, max_size=3),
                                                           st.dictionaries(st.text("abk", min_size=1, max_size=3), ch, max_size=3)),
                          max_leaves=6)

sleeps = st.one_of(st.just(0.0), st.just(0.0), st.sampled_from([0.01, 0.1, 0.25, 0.5, 1.0, 1.5]),
                   st.integers(1, 2000).map(lambda ms: ms / 1000))


def outcome_ret(values=json_value):
    return st.fixed_dictionaries({"k": st.just("ret"), "v": values, "sleep": sleeps})


def outcome_unserializable():
    return st.fixed_dictionaries({"k": st.just("ret"), "v": st.just({"$unserializable": True}), "sleep": sleeps})


def outcome_raise():
    return st.fixed_dictionaries({"k": st.just("raise"), "exc": st.sampled_from(EXC_NAMES + RARE_EXC),
                                 "text": EXC_TEXT, "sleep": sleeps})


def outcome_timeout():
    # cleanup: the actor needs that long to unwind after the cancellation the execution timeout sends it
    return st.fixed_dictionaries({"k": st.just("timeout"), "extra": st.sampled_from([0.001, 0.5, 5.0]),
                                  "cleanup": st.sampled_from([0.0, 0.0, 0.0, 0.3])})


def outcome_depfail():
    return st.fixed_dictionaries({"k": st.just("depfail"), "exc": st.sampled_from(EXC_NAMES), "text": EXC_TEXT})


def outcome_depeager():
    return st.fixed_dictionaries({"k": st.just("depeager"), "action": st.sampled_from(EAGER_ACTIONS), "program": st.just([]),
                                  "sleep": st.just(0.0)})


def eager_program(with_sets: bool):
    cb = st.tuples(st.just("cb"), st.integers(0, 9), st.sampled_from(["sync", "async"])).map(list)
    steps = [cb]
    if with_sets:
        steps.append(st.tuples(st.just("result"), json_value).map(list))
        steps.append(st.tuples(st.just("exception"), st.sampled_from(EXC_NAMES), EXC_TEXT).map(list))
    return st.lists(st.one_of(*steps), max_size=4)


def outcome_eager(with_sets: bool, actions=EAGER_ACTIONS):
    return st.fixed_dictionaries({"k": st.just("eager"), "action": st.sampled_from(actions),
                                  "program": eager_program(with_sets), "sleep": sleeps,
                                  # the actor answers inside its own `try ... except Exception` block
                                  "guard": st.sampled_from([False, False, True])})


@st.composite
def job(draw, idx: int, actors: list, *, allow_eager=True, allow_timeout=True, allow_recurring=True,
        store_result=None, max_retries=3, enqueue_window=0.0):
    a = draw(st.sampled_from(actors))
    shape = a["shape"]
    j: dict = {"id": f"j{idx}", "actor": a["name"], "queue": a["queue"]}
    j["retries"] = draw(st.integers(0, max_retries))
    sr = draw(st.booleans()) if store_result is None else store_result
    j["store_result"] = sr
    small_timeout = allow_timeout and shape != "sync" and draw(st.integers(0, 3)) == 0
    if small_timeout:
        j["timeout"] = draw(st.sampled_from([1, 2, 3]))
    if allow_recurring and draw(st.integers(0, 3)) == 0:
        j["defer_by"] = draw(st.sampled_from([1, 1.5, 2, 3]))
        j["iterations"] = draw(st.integers(1, 2))
    if enqueue_window > 0:
        j["enqueue_at"] = draw(st.one_of(st.just(0.0), st.integers(0, int(enqueue_window * 1000)).map(lambda ms: ms / 1000)))
    # attempts
    opts = [outcome_ret(), outcome_raise()]
    if shape != "sync":
        opts.append(outcome_unserializable())
        if small_timeout:
            opts.append(outcome_timeout())
        if allow_eager:
            opts.append(outcome_eager(with_sets=True))
        if shape in ("dep", "dep2"):
            opts.append(outcome_depfail())
            if allow_eager:
                opts.append(outcome_depeager())
    else:
        opts = [st.fixed_dictionaries({"k": st.just("ret"), "v": json_value}),
                st.fixed_dictionaries({"k": st.just("raise"), "exc": st.sampled_from(EXC_NAMES), "text": EXC_TEXT})]
    n = draw(st.integers(1, 4))
    att = [draw(st.one_of(*opts)) for _ in range(n - 1)]
    last_opts = opts[:2] + ([outcome_depfail()] if shape in ("dep", "dep2") else [])
    att.append(draw(st.one_of(*last_opts)))
    j["attempts"] = att
    if shape == "req":
        j["badargs"] = draw(st.booleans())
        if j["badargs"]:
            j["args"] = draw(st.sampled_from([{"x": 1}, {}, {"need": "not-an-int", "x": 2}]))
            if j["args"].get("need") == "not-an-int":
                j["badargs_kind"] = "type"
            else:
                j["badargs_kind"] = "missing"
        else:
            j["args"] = {"need": draw(st.integers(-5, 5))}
    elif shape == "sync":
        j["args"] = {"id_": j["id"], "x": draw(st.integers(0, 9))}
    else:
        if draw(st.booleans()):
            j["args"] = {"x": draw(st.integers(0, 9))}
    return j


ACTOR_POOL = [
    {"name": "a_plain", "queue": "q0", "shape": "plain"},
    {"name": "a_req", "queue": "q0", "shape": "req"},
    {"name": "a_dep", "queue": "q1", "shape": "dep"},
    {"name": "a_dep2", "queue": "q0", "shape": "dep2"},  # the scripted provider sits one level down (a dependency of a dependency)
    {"name": "a_sync", "queue": "q1", "shape": "sync"},
    {"name": "b_plain", "queue": "q1", "shape": "plain"},
]


@st.composite
def worker_case(draw, *, brokers=("mem",), max_jobs=5, converters=("basic", "pydantic"), tasks_limits=(1, 2, 3, 4, 1000),
                job_kw=None, actors_pool=None):
    pool = actors_pool or ACTOR_POOL
    actors = draw(st.lists(st.sampled_from(pool), min_size=1, max_size=3, unique_by=lambda a: a["name"]))
    conv = draw(st.sampled_from(list(converters)))
    broker = draw(st.sampled_from(list(brokers)))
    policy = draw(st.one_of(
        st.fixed_dictionaries({"kind": st.just("table"),
                               "values": st.lists(st.sampled_from([0.0, 0.2, 0.5, 1.0, 1.3, 2.0, 3.0]), min_size=1, max_size=4)}),
        st.fixed_dictionaries({"kind": st.just("default"), "min": st.integers(1, 2), "max": st.integers(2, 4),
                               "mult": st.integers(1, 2), "exp": st.integers(1, 3)}),
    ))
    nj = draw(st.integers(1, max_jobs))
    jobs = [draw(job(i, actors, **(job_kw or {}))) for i in range(nj)]
    for j in jobs:
        if j.get("badargs_kind") == "type" and conv != "pydantic":
            j["badargs"] = False  # only a validating converter rejects a value of the wrong type
    case = {
        "broker": broker,
        "seed": draw(st.integers(0, 2**16)),
        "converter": conv,
        "actors": actors,
        "policy": policy,
        "worker": {"tasks_limit": draw(st.sampled_from(list(tasks_limits)))},
        "jobs": jobs,
    }
    if broker != "mem":
        case["lat"] = draw(st.lists(st.sampled_from([0.0, 0.0, 0.001, 0.002, 0.005]), max_size=30))
    return finalize(host_dims(draw, case))


def host_dims(draw, case: dict, *, reach_days: float = 3, rename: bool = True, prio: bool = True) -> dict:
    """Dimensions of the host and of naming that every worker scenario has, whatever its generator was written for: the host time
    zone (repid keeps naive local datetimes), the level the application gave the "repid" logger (at DEBUG every log line of the
    library is formatted), message priorities, and legal but unusual queue / actor / message names."""
    if "tz" not in case and draw(st.integers(0, 3)) == 0:
        case["tz"] = draw(st.sampled_from(vclock.zones(reach_days)))
    if draw(st.integers(0, 4)) == 0:
        case["log"] = "DEBUG"
    if prio:
        for j in case["jobs"]:
            if "priority" not in j and draw(st.integers(0, 3)) == 0:
                j["priority"] = draw(st.sampled_from([0, 9]))  # LOW / HIGH
    if rename and draw(st.integers(0, 3)) == 0:
        # (the case is rewritten here, every later look-up goes through it)
        case["actors"] = [dict(a) for a in case["actors"]]
        names.rename_worker_case(case, draw(st.sampled_from(names.STYLES)))
    return case


def pickup_latency(broker: str) -> float:
    # generous per-delivery pickup allowance used only to size the horizon (never as an oracle)
    return {"mem": 1.3, "redis": 1.6, "amqp": 0.6}[broker]


def finalize(case: dict) -> dict:
    """Compute the horizon from the model so the scenario has time to finish (plus slack)."""
    total = 0.0
    tl = max(1, min(case["worker"].get("tasks_limit", 1000), 1000))
    serial = 0.0
    for j in case["jobs"]:
        steps, _ = model.chain(j, case.get("policy"))
        t = model.estimate_time(j, case.get("policy"), steps, pickup_latency(case["broker"]))
        total = max(total, t)
        serial += sum(s.duration for s in steps)
    extra = serial if tl < len(case["jobs"]) else 0.0
    case["horizon"] = round(total + extra + 15.0, 3)
    return case
