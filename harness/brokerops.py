"""Broker-level history interpreter with a message-lifecycle model (C01, C05, C12, C14, C15).

A case is {"broker", "seed", "lat": {client: [..]}, "ops": [op, ...]}; ops are plain dicts.  The interpreter
executes them against the real broker classes (in-memory, or Redis/AMQP over the server models), keeps a
reference model of every message and, after every op, probes the broker-side state and checks it against
the model under a *transition monitor* (brokers move messages on their own: prefetch, expiry, due delays).

Every finding is appended to `World.viol` as (kind, message, facts); the checks decide which kinds they own.
"""
from __future__ import annotations

import asyncio
from dataclasses import dataclass, field
from datetime import timedelta
from typing import Any

from harness import names, vclock
from harness.brokers import Env, reset_globals

RES = 0.001  # 1 ms: the resolution the properties are stated at
CATS = ("NORMAL", "DELAYED", "DEAD")


@dataclass
class M:
    id: str
    queue: str
    topic: str
    prio: int
    payload: str
    params: Any
    order: int
    due: float | None = None  # virtual seconds; None = immediately deliverable
    expiry: float | None = None  # virtual seconds at which the ttl runs out
    acked: bool = False
    dead: bool = False  # model category: dead-lettered
    holder: int | None = None  # consumer index the message was handed to (client holds it)
    taken_from: str | None = None
    returned_at_order: int | None = None  # sequence number of its last return (for FIFO)
    unknown: bool = False  # state uncertain after a cancelled op (adopted from the probe)
    enq_t: float = 0.0
    handovers: list = field(default_factory=list)  # (t, consumer index)
    reclaimed_live: bool = False  # Redis maintenance took it away from a live consumer (execution timeout exceeded)
    maybe: set = field(default_factory=set)  # after a cancelled op: admissible model states {"pre","post"}
    pre: Any = None
    post: Any = None
    seq0: int = 0  # sequence number at enqueue (never changes)


@dataclass
class Cons:
    idx: int
    client: str
    obj: Any
    queue: str
    topics: list | None
    category: str
    started: bool = False
    finished: bool = False
    held: list = field(default_factory=list)  # ids handed over and not yet disposed by the client
    pending: Any = None  # in-flight consume task (concurrent launches)
    finished_at: float | None = None
    dead: bool = False
    paused: bool = False


class World:
    def __init__(self, loop: vclock.VLoop, case: dict) -> None:
        self.loop = loop
        self.case = case
        self.kind = case.get("broker", "mem")
        reset_globals(case.get("log"))
        self.env = Env(self.kind, loop, case.get("seed", 0))
        self.conns: dict[str, Any] = {}
        self.cons: list[Cons] = []
        self.msgs: dict[str, M] = {}
        self.viol: list[tuple] = []
        self.events: list[dict] = []  # op results
        self.seq = 0
        self.declared: set[str] = set()
        self.cancelled_ops = 0
        self.cancel_effective = 0
        self.lat_total = 0.0
        self.facts: dict[str, Any] = {}
        self.maybe_ids: set[str] = set()
        self.dead_clients: set[str] = set()
        self.n_maint = 0

    # ------------------------------------------------------------------ helpers
    def v(self, kind: str, msg: str, **facts: Any) -> None:
        self.viol.append((kind, msg, facts))

    @property
    def now(self) -> float:
        return self.loop.time()

    async def conn(self, name: str) -> Any:
        if name not in self.conns:
            lat = (self.case.get("lat") or {}).get(name)
            self.lat_total += sum(lat or [])
            c = self.env.connection(name, lat, buckets=False)
            await c.connect()
            self.conns[name] = c
        return self.conns[name]

    async def broker(self, name: str) -> Any:
        return (await self.conn(name)).message_broker

    async def declare(self, q: str, via: str) -> None:
        if q not in self.declared:
            b = await self.broker(via)
            await b.queue_declare(q)
            self.declared.add(q)

    def tol(self) -> float:
        return RES

    async def call(self, coro: Any, cancel_after: int | None) -> tuple[bool, Any]:
        """Run a broker call; optionally cancel it after `cancel_after` loop steps. -> (completed, result)"""
        if cancel_after is None:
            return True, await coro
        task = asyncio.ensure_future(coro)
        self.cancelled_ops += 1
        self.loop.inject_after(cancel_after, task.cancel)
        # a call that simply blocks (nothing to consume) makes no loop steps: cancel it by virtual time instead
        fallback = self.loop.call_later(2.0, task.cancel)
        try:
            r = await task
            return True, r
        except asyncio.CancelledError:
            if not task.cancelled() and not task.done():
                raise
            self.cancel_effective += 1
            return False, None
        finally:
            fallback.cancel()

    def mk_params(self, spec: dict) -> tuple[Any, float | None, float | None]:
        from repid.data._parameters import DelayProperties, Parameters, RetriesProperties

        now = vclock.VDateTime.now()
        delay = spec.get("delay")
        due = None
        dp = DelayProperties()
        if delay:
            d = timedelta(microseconds=round(delay["delta"] * 1e6))
            if delay["kind"] == "net":
                dp = DelayProperties(next_execution_time=now + d)
                due = vclock.secs(now + d)
            elif delay["kind"] == "until":
                dp = DelayProperties(delay_until=now + d)
                due = vclock.secs(now + d) if d > timedelta(0) else None
            elif delay["kind"] == "by":
                per = timedelta(microseconds=round(max(delay["delta"], 1.0) * 1e6))
                dp = DelayProperties(defer_by=per)
                due = vclock.secs(now + per)
        ttl = spec.get("ttl")
        ts = now - timedelta(microseconds=round(spec.get("age", 0.0) * 1e6))
        params = Parameters(
            execution_timeout=timedelta(seconds=spec.get("timeout", 600)),
            retries=RetriesProperties(max_amount=spec.get("retries", 0), already_tried=spec.get("tried", 0)),
            delay=dp,
            timestamp=ts,
            ttl=None if ttl is None else timedelta(microseconds=round(ttl * 1e6)),
        )
        expiry = None if ttl is None else vclock.secs(ts) + ttl
        if due is not None and due <= vclock.secs(now):
            pass
        return params, due, expiry

    # ------------------------------------------------------------------ ops
    async def step(self, op: dict) -> None:
        k = op["op"]
        ev = {"op": op, "t": self.now}
        self.events.append(ev)
        fn = getattr(self, "op_" + k)
        await fn(op, ev)
        await self.settle()
        self.check_state(f"after {k}")

    async def settle(self) -> None:
        for _ in range(12):
            await asyncio.sleep(0)

    async def op_enq(self, op: dict, ev: dict) -> None:
        from repid.data._key import RoutingKey

        client = op.get("client", "p0")
        b = await self.broker(client)
        q = op["q"]
        await self.declare(q, client)
        if op.get("again") is not None:
            # the producer enqueues an id again that is still waiting (a "unique job" enqueued twice - the stored message is kept):
            # for the order of delivery that changes nothing, the message keeps the place its first enqueue gave it
            waiting = [m_ for m_ in self.msgs.values() if m_.queue == q and m_.holder is None and not m_.acked and not m_.dead and not m_.unknown
                       and not m_.handovers]
            if not waiting:
                ev["skipped"] = True
                return
            m_ = sorted(waiting, key=lambda x: x.seq0)[op["again"] % len(waiting)]
            key = RoutingKey(topic=m_.topic, queue=q, priority=m_.prio, id_=m_.id)
            await b.enqueue(key, m_.payload, m_.params)
            ev["again"] = m_.id
            return
        self.seq += 1
        id_ = op.get("id") or names.auto_id(self.case.get("names"), self.seq)
        if id_ in self.msgs:
            return
        params, due, expiry = self.mk_params(op)
        key = RoutingKey(topic=op["topic"], queue=q, priority=op.get("prio", 5), id_=id_)
        payload = op.get("payload", "")
        m = M(id_, q, op["topic"], op.get("prio", 5), payload, params, self.seq, due, expiry, enq_t=self.now, seq0=self.seq)
        done, _ = await self.call(b.enqueue(key, payload, params), op.get("cancel_after"))
        ev["done"] = done
        ev["id"] = id_
        if done:
            self.msgs[id_] = m
        else:
            # cancelled enqueue: message either exists (post) or not (pre)
            await self.settle()
            places = self.env.probe().get(id_, [])
            if len(places) > 1:
                self.v("cancel-atomicity", f"cancelled enqueue of {id_} left it in {[p.short() for p in places]}", op="enq",
                       broker=self.kind, what="duplicated")
            if places:
                self.msgs[id_] = m
            else:
                self.maybe_ids.add(id_)
            ev["adopted"] = "post" if places else "pre"

    async def op_start(self, op: dict, ev: dict) -> None:
        from repid import MessageCategory

        client = op.get("client", "c0")
        b = await self.broker(client)
        q = op["q"]
        await self.declare(q, client)
        cons = b.get_consumer(q, op.get("topics"), op.get("max_unacked"), MessageCategory(op.get("category", "NORMAL")))
        c = Cons(len(self.cons), client, cons, q, op.get("topics"), op.get("category", "NORMAL"))
        self.cons.append(c)
        await cons.start()
        c.started = True

    def _cons(self, op: dict) -> Cons | None:
        live = [c for c in self.cons if c.started and not c.finished]
        if not live:
            return None
        return live[op.get("c", 0) % len(live)]

    async def op_consume(self, op: dict, ev: dict) -> None:
        c = self._cons(op)
        if c is None or c.pending is not None:
            ev["skipped"] = True
            return
        ev["c"] = c.idx
        patience = op.get("patience", 0.05)
        t0 = self.now
        if op.get("cancel_after") is not None:
            # consume() interrupted by task cancellation after k loop steps: whatever it had taken must not be lost
            done, msg = await self.call(c.obj.consume(), op["cancel_after"])
            if not done:
                ev["cancelled"] = True
                return
            self.handover(c, msg, ev, t0)
            return
        try:
            msg = await asyncio.wait_for(c.obj.consume(), timeout=patience)
        except asyncio.TimeoutError:
            ev["timeout"] = True
            return
        self.handover(c, msg, ev, t0)

    async def op_launch(self, op: dict, ev: dict) -> None:
        """Start consume() on a consumer without waiting for it (several can be in flight at once)."""
        c = self._cons(op)
        if c is None or c.pending is not None:
            ev["skipped"] = True
            return
        ev["c"] = c.idx
        c.pending = asyncio.ensure_future(c.obj.consume())

    async def op_collect(self, op: dict, ev: dict) -> None:
        """Wait (up to patience) for every in-flight consume launched earlier; cancel those that do not finish."""
        pend = [c for c in self.cons if c.pending is not None]
        if not pend:
            ev["skipped"] = True
            return
        t0 = self.now
        await asyncio.wait([c.pending for c in pend], timeout=op.get("patience", 0.3))
        got = []
        for c in pend:
            task, c.pending = c.pending, None
            if task.done() and not task.cancelled() and task.exception() is None:
                sub = {"c": c.idx}
                self.handover(c, task.result(), sub, t0)
                got.append(sub)
            else:
                task.cancel()
                await asyncio.gather(task, return_exceptions=True)
        ev["collected"] = got

    def handover(self, c: Cons, msg: tuple, ev: dict, t0: float) -> None:
        key, payload, params = msg
        id_ = key.id_
        ev["id"] = id_
        ev["t_done"] = self.now
        m = self.msgs.get(id_)
        if m is None:
            self.v("phantom-delivery", f"consumer {c.idx} received unknown message {id_}")
            return
        m.handovers.append((self.now, c.idx))
        tag = f"message {id_} (queue {m.queue}, topic {m.topic}) handed to consumer {c.idx} [{c.category} on {c.queue}, topics {c.topics}] at t={self.now:.6f}"
        if m.acked and not m.unknown:
            self.v("delivered-after-ack", f"{tag} although it was acknowledged", broker=self.kind, reclaimed_live=m.reclaimed_live)
        if m.holder is not None and not m.unknown:
            self.v("double-delivery", f"{tag} while consumer {m.holder} still holds it", broker=self.kind,
                   same_client=(self.cons[m.holder].client == c.client), reclaimed_live=m.reclaimed_live)
        if c.queue != m.queue:
            self.v("wrong-queue-delivery", f"{tag}")
        if c.topics and m.topic not in c.topics:
            self.v("wrong-topic-delivery", f"{tag}")
        if c.category == "NORMAL":
            if m.dead and not m.unknown:
                self.v("dead-delivered-normal", f"{tag} although it is dead-lettered")
            if m.due is not None and self.now < m.due - RES:
                self.v("early-delivery", f"{tag}, {m.due - self.now:.6f}s before its due time {m.due:.6f}", broker=self.kind)
            slack = self.lat_total + 1e-6
            if m.expiry is not None and t0 > m.expiry + slack and not m.dead:
                self.v("expired-delivered", f"{tag} although its ttl ran out at {m.expiry:.6f} (consume started {t0:.6f})",
                       broker=self.kind)
        elif c.category == "DELAYED":
            if m.due is None and not m.unknown:
                self.v("not-delayed-via-delayed", f"{tag} but it has no delay")
        elif c.category == "DEAD" and not m.dead and not m.unknown:
            over = m.expiry is not None and self.now > m.expiry - self.lat_total - 1e-6
            if not over:
                self.v("live-via-dead", f"{tag} but it was never dead-lettered")
            else:
                m.dead = True
        elif c.category == "DEAD" and m.unknown:
            # its state was uncertain after a cancelled call (e.g. a nack): arriving through the dead category settles it - the
            # call took effect
            m.dead = True
        # identity of what is delivered
        if key.topic != m.topic or key.queue != m.queue:
            self.v("delivered-key", f"{tag}: key {key} differs from enqueued topic/queue")
        if not m.unknown and not m.maybe:
            if payload != m.payload:
                self.v("delivered-payload", f"{tag}: payload {payload!r}, expected {m.payload!r}")
            if params != m.params:
                self.v("delivered-params", f"{tag}: params {params}, expected {m.params}")
        else:
            m.payload, m.params = payload, params
            self._sync_from_params(m)
        m.unknown = False
        m.maybe = set()
        m.holder = c.idx
        m.taken_from = c.category
        m.acked = False
        c.held.append(id_)
        ev["key"] = key

    def _sync_from_params(self, m: M) -> None:
        p = m.params
        if p is None:
            return
        m.expiry = None if p.ttl is None else vclock.secs(p.timestamp) + p.ttl.total_seconds()
        if p.delay.next_execution_time is not None:
            m.due = vclock.secs(p.delay.next_execution_time)

    def _held(self, op: dict) -> tuple[Cons, M] | None:
        holders = [c for c in self.cons if c.held and not c.dead]
        if not holders:
            return None
        c = holders[op.get("c", 0) % len(holders)]
        id_ = c.held[op.get("i", 0) % len(c.held)]
        return c, self.msgs[id_]

    def _key(self, m: M) -> Any:
        from repid.data._key import RoutingKey

        return RoutingKey(topic=m.topic, queue=m.queue, priority=m.prio, id_=m.id)

    async def _terminal(self, op: dict, ev: dict, name: str) -> None:
        h = self._held(op)
        if h is None:
            ev["skipped"] = True
            return
        c, m = h
        if name == "nack" and m.taken_from != "NORMAL":
            ev["skipped"] = True  # the message API refuses nack outside the NORMAL category (C16)
            return
        ev["id"], ev["c"] = m.id, c.idx
        b = await self.broker(c.client)
        key = self._key(m)
        pre = (m.acked, m.dead, m.holder, m.payload, m.params, m.due, m.expiry)
        new_payload, new_params, new_due, new_exp = m.payload, m.params, m.due, m.expiry
        if name == "requeue":
            spec = dict(op)
            spec.setdefault("tried", m.params.retries.already_tried + 1)
            new_params, new_due, new_exp = self.mk_params(spec)
            new_payload = op.get("payload", m.payload + "'")
            coro = b.requeue(key, new_payload, new_params)
        else:
            coro = getattr(b, name)(key)
        done, _ = await self.call(coro, op.get("cancel_after"))
        ev["done"] = done

        def apply_post() -> None:
            m.holder = None
            if m.id in c.held:
                c.held.remove(m.id)
            self.seq += 1
            if name == "ack":
                m.acked = True
            elif name == "nack":
                m.dead = True
            elif name == "reject":
                m.returned_at_order = self.seq
            elif name == "requeue":
                m.payload, m.params, m.due, m.expiry = new_payload, new_params, new_due, new_exp
                m.dead = False
                m.returned_at_order = self.seq
                m.order = self.seq

        if done:
            apply_post()
            return
        # cancelled: atomicity - the broker must show the pre-state or the post-state, nothing else
        await self.settle()
        places = self.env.probe().get(m.id, [])
        kinds = sorted(p.kind for p in places)
        ev["after_cancel"] = kinds
        src = {"NORMAL": [["waiting"], ["delayed"]], "DELAYED": [["delayed"], ["waiting"]], "DEAD": [["dead"]]}[m.taken_from or "NORMAL"]
        allowed = {"ack": [[], ["held"]], "nack": [["held"], ["dead"]], "reject": [["held"]] + src,
                   "requeue": [["held"], ["waiting"], ["delayed"]]}[name]
        exp_after = m.expiry if name == "reject" else (new_exp if name == "requeue" else None)
        if kinds == ["dead"] and exp_after is not None and self.now > exp_after - self.lat_total - 1e-6:
            # its time-to-live has run out: once the (cancelled) call has put it back, a consumer that meets it dead-letters it -
            # the post-state followed by an expiry, not a torn call
            kinds = ["waiting"]
            m.dead = True
        if kinds not in allowed:
            what = "lost" if not kinds else ("duplicated" if len(kinds) > 1 else "misplaced")
            self.v("cancel-atomicity", f"{name} of message {m.id} (taken from {m.taken_from}) was cancelled after "
                   f"{op.get('cancel_after')} loop steps and left it {what}: places {kinds} (neither its pre- nor its post-state)",
                   op=name, broker=self.kind, what=what)
        # the client no longer knows whether the call took effect: it drops the handle; the model adopts the probe
        m.holder = None
        if m.id in c.held:
            c.held.remove(m.id)
        m.unknown = True
        if name == "requeue":
            m.maybe = {"pre", "post"}
            m.pre = pre
            m.post = (new_payload, new_params, new_due, new_exp)

    async def op_ack(self, op: dict, ev: dict) -> None:
        await self._terminal(op, ev, "ack")

    async def op_nack(self, op: dict, ev: dict) -> None:
        await self._terminal(op, ev, "nack")

    async def op_reject(self, op: dict, ev: dict) -> None:
        await self._terminal(op, ev, "reject")

    async def op_requeue(self, op: dict, ev: dict) -> None:
        await self._terminal(op, ev, "requeue")

    async def op_reconnect(self, op: dict, ev: dict) -> None:
        """connect() called again on a broker that is connected (a second Connection / Repid app sharing the broker object does
        that; the call is idempotent by design): nothing a client holds or waits for may be affected."""
        client = op.get("client", "c0")
        if client not in self.conns or client in self.dead_clients or self.kind == "redis":
            ev["skipped"] = True  # (Redis: connect() runs maintenance - that is the `maintenance` op with its own oracle)
            return
        await self.conns[client].message_broker.connect()

    async def op_pause(self, op: dict, ev: dict) -> None:
        """ConsumerT.pause(): consumption pauses; nothing may be lost, duplicated or reordered by it."""
        c = self._cons(op)
        if c is None or c.pending is not None or c.paused or c.dead:
            ev["skipped"] = True
            return
        ev["c"] = c.idx
        await c.obj.pause()
        c.paused = True

    async def op_unpause(self, op: dict, ev: dict) -> None:
        c = self._cons(op)
        if c is None or c.pending is not None or not c.paused or c.dead:
            ev["skipped"] = True
            return
        ev["c"] = c.idx
        await c.obj.unpause()
        c.paused = False

    async def op_finish(self, op: dict, ev: dict) -> None:
        c = self._cons(op)
        if c is None:
            ev["skipped"] = True
            return
        ev["c"] = c.idx
        await self._finish(c)

    async def _finish(self, c: Cons) -> None:
        if c.pending is not None:
            c.pending.cancel()
            await asyncio.gather(c.pending, return_exceptions=True)
            c.pending = None
        await c.obj.finish()
        c.finished = True
        c.finished_at = self.now
        await self.settle()
        # messages the client already received: "still held" or "returned" are both acceptable; adopt the probe
        pr = self.env.probe()
        for id_ in list(c.held):
            m = self.msgs[id_]
            places = pr.get(id_, [])
            kinds = [p.kind for p in places]
            elsewhere = kinds == ["held"] and places[0].holder is not None and places[0].holder != c.client
            # consumers return every message related to them (ConsumerT.finish docstring): the client must not act on
            # those handles any more
            returns_all = True
            if kinds != ["held"] or elsewhere or returns_all:
                m.holder = None
                c.held.remove(id_)
                self.seq += 1
                m.returned_at_order = self.seq
                m.unknown = kinds == []  # conservation check below will flag a vanished message

    async def op_advance(self, op: dict, ev: dict) -> None:
        await asyncio.sleep(op["dt"])

    async def op_kill(self, op: dict, ev: dict) -> None:
        """Process death of a client (Redis / AMQP): nothing it does reaches the server any more, no cleanup runs."""
        if self.kind == "mem":
            ev["skipped"] = True
            return
        names = sorted({c.client for c in self.cons if c.started and not c.finished and c.client not in self.dead_clients})
        if not names:
            ev["skipped"] = True
            return
        name = names[op.get("c", 0) % len(names)]
        ev["client"] = name
        self.dead_clients.add(name)
        self.env.kill(name)
        for c in self.cons:
            if c.client == name:
                if c.pending is not None:
                    c.pending.cancel()
                    await asyncio.gather(c.pending, return_exceptions=True)
                    c.pending = None
                task = getattr(c.obj, "consume_task", None)
                if task is not None:
                    task.cancel()
                    await asyncio.gather(task, return_exceptions=True)
                c.finished = True
                c.finished_at = self.now
                c.dead = True
        await self.settle()
        if self.kind == "amqp":
            # the server notices the lost connection and requeues its unacked deliveries
            for c in self.cons:
                if c.client == name:
                    for id_ in list(c.held):
                        self.msgs[id_].holder = None
                        c.held.remove(id_)

    async def op_maintenance(self, op: dict, ev: dict) -> None:
        """A fresh Redis broker connects (its connect() runs maintenance)."""
        if self.kind != "redis":
            ev["skipped"] = True
            return
        self.n_maint += 1
        now = self.now
        srv = self.env.rserver
        proc = dict(srv.kv.get("processing") or {})
        expect = {}
        takers: dict = {}  # id -> client whose consumer marked it as processing
        for member in proc:
            short = member.decode()
            id_ = short.split(":")[1]
            m = self.msgs.get(id_)
            if m is None or m.params is None:
                continue
            t_take = srv.zadd_times.get(("processing", member), None)
            if t_take is None:
                continue
            t_take -= vclock._EPOCH_TS
            deadline = t_take + m.params.execution_timeout.total_seconds()
            expect[id_] = (t_take, deadline)
            takers[id_] = srv.zadd_clients.get(("processing", member))
        # ids sitting in the local prefetch queue of a live consumer (harness observation of client-side state)
        prefetched_live = set()
        for c in self.cons:
            if c.started and not c.finished and not c.dead:
                lq = getattr(getattr(c.obj, "queue", None), "_queue", None) or []
                for item in list(lq):
                    try:
                        prefetched_live.add(item[0].id_)
                    except Exception:  # noqa: BLE001
                        pass
        conn = await self.conn(f"maint{self.n_maint}")
        await self.settle()
        await asyncio.sleep(0.01)
        pr = self.env.probe()
        for id_, (t_take, deadline) in expect.items():
            m = self.msgs[id_]
            kinds = sorted(p.kind for p in pr.get(id_, []))
            still = kinds == ["held"]
            if still:
                # taken again right after maintenance returned it?
                t2 = srv.zadd_times.get(("processing", f"{m.topic}:{id_}".encode()))
                if t2 is not None and t2 - vclock._EPOCH_TS > t_take + 1e-9:
                    still = False
            if now < deadline - RES and not still and id_ in pr:
                self.v("timeout-early-release", f"maintenance at {now:.6f} returned message {id_} taken at {t_take:.6f} although its "
                       f"execution timeout ends at {deadline:.6f}; places {kinds}", early_by=round(deadline - now, 3))
            if now > deadline + RES and still:
                self.v("timeout-not-released", f"maintenance at {now:.6f} left message {id_} in flight although it was taken at "
                       f"{t_take:.6f} and its execution timeout ended at {deadline:.6f}")
            if now > deadline - RES and not still:
                # timed out: whoever held it has lost it.  If that was a *live* client (or a live consumer's prefetch
                # queue) the old copy can still be handed over / acted upon: remember it for the double-delivery facts
                holder_live = m.holder is not None and not self.cons[m.holder].dead
                # (in a live consumer's local queue, or still in the hand of its background task: taken by a client that is alive)
                taker_alive = takers.get(id_) is not None and takers[id_] not in self.dead_clients
                prefetch_live = m.holder is None and (
                    not any(c.dead and c.queue == m.queue for c in self.cons) or id_ in prefetched_live or taker_alive)
                if holder_live or prefetch_live:
                    m.reclaimed_live = True
                if m.holder is not None:
                    c = self.cons[m.holder]
                    if id_ in c.held:
                        c.held.remove(id_)
                    m.holder = None
                    self.seq += 1
                    m.returned_at_order = self.seq
                    ev.setdefault("released", []).append(id_)

    # ------------------------------------------------------------------ state check (transition monitor)
    def check_state(self, where: str) -> None:
        pr = self.env.probe()
        now = self.now
        live_cons = [c for c in self.cons if c.started and not c.finished]
        for id_, m in self.msgs.items():
            places = pr.get(id_, [])
            kinds = sorted(p.kind for p in places)
            tag = f"{where} (t={now:.6f}): message {id_}"
            if m.unknown:
                # adopt: state became uncertain through a cancelled call
                if len(places) > 1:
                    self.v("duplicated", f"{tag} is in several places: {[p.short() for p in places]}", broker=self.kind, reclaimed_live=m.reclaimed_live)
                    continue
                if not places:
                    m.acked, m.unknown = True, False
                    continue
                p = places[0]
                if p.kind == "held":
                    continue  # still ambiguous (client-held pre-state or prefetched again)
                m.acked, m.dead, m.unknown = False, p.kind == "dead", False
                if p.params is not None:
                    if m.maybe:
                        old_ok = m.pre is not None and p.payload == m.pre[3] and p.params == m.pre[4]
                        new_ok = m.post is not None and p.payload == m.post[0] and p.params == m.post[1]
                        if not (old_ok or new_ok):
                            self.v("requeue-torn", f"{tag}: after a cancelled requeue the stored payload/params are neither the "
                                   f"old nor the new ones: {p.payload!r} {p.params}")
                    m.payload, m.params = p.payload, p.params
                    m.due = None
                    self._sync_from_params(m)
                    if p.kind == "delayed" and p.due is not None and m.due is None:
                        m.due = p.due
                m.maybe = set()
                continue
            if m.acked:
                if places:
                    self.v("acked-still-present", f"{tag} was acknowledged but is in {kinds}", broker=self.kind, reclaimed_live=m.reclaimed_live)
                continue
            if len(places) == 0:
                self.v("lost", f"{tag} is nowhere (model: holder={m.holder}, dead={m.dead})", broker=self.kind, reclaimed_live=m.reclaimed_live)
                m.acked = True  # report once
                continue
            if len(places) > 1:
                self.v("duplicated", f"{tag} is in several places: {[p.short() for p in places]}", broker=self.kind, reclaimed_live=m.reclaimed_live)
                continue
            p = places[0]
            if m.holder is not None:
                if p.kind != "held":
                    self.v("held-not-held", f"{tag} is held by consumer {m.holder} but the broker shows it {p.short()}",
                           broker=self.kind, reclaimed_live=m.reclaimed_live)
                elif p.holder is not None and p.holder != self.cons[m.holder].client:
                    self.v("held-by-other", f"{tag} held by client {self.cons[m.holder].client} but server shows {p.holder}")
                continue
            # not held by a client
            overdue = m.expiry is not None and now > m.expiry - self.lat_total - 1e-6
            if p.kind == "held":
                # prefetch / lost hand-over: legal only while some live consumer on that queue could have taken it
                # (a consumer that just finished may still be returning it: AMQP's delayed reject takes 0.1 s)
                recent = any(c.queue == m.queue and c.finished and c.finished_at is not None and now - c.finished_at < 0.25
                             for c in self.cons)
                crashed = any(c.queue == m.queue and c.dead for c in self.cons)  # in flight until timeout + maintenance
                if not recent and not crashed and not any(c.queue == m.queue for c in live_cons):
                    self.v("stranded-in-flight", f"{tag} is marked in-flight but no live consumer can hold it", broker=self.kind)
                continue
            if p.kind == "dead":
                if not m.dead and not overdue:
                    self.v("live-dead-lettered", f"{tag} is dead-lettered but was never nacked and is not expired "
                           f"(expiry={m.expiry})", broker=self.kind)
                elif not m.dead:
                    m.dead = True  # legal edge: expired
                continue
            if m.dead:
                self.v("dead-resurrected", f"{tag} was dead-lettered but is now {p.short()}", broker=self.kind)
                continue
            if p.kind == "waiting" and m.due is not None and now < m.due - RES:
                self.v("early-waiting", f"{tag} is deliverable (waiting) {m.due - now:.6f}s before its due time", broker=self.kind)
            # stored content
            if p.params is not None:
                if p.payload != m.payload:
                    self.v("stored-payload", f"{tag}: stored payload {p.payload!r}, expected {m.payload!r}")
                elif p.params != m.params:
                    self.v("stored-params", f"{tag}: stored params {p.params}, expected {m.params}")
        for id_ in pr:
            if id_ not in self.msgs and id_ not in self.maybe_ids:
                self.v("phantom-message", f"{where}: unknown message {id_} present in the broker")

    # ------------------------------------------------------------------ end of history
    async def drain(self) -> None:
        """Finish every consumer, let short broker timers run out, then require: nothing is lost, duplicated, or
        still marked in-flight without a client holding it."""
        for c in self.cons:
            if c.started and not c.finished:
                await self._finish(c)
        await asyncio.sleep(0.5)
        await self.settle()
        pr = self.env.probe()
        for id_, m in self.msgs.items():
            places = pr.get(id_, [])
            kinds = sorted(p.kind for p in places)
            if m.acked and not m.unknown:
                if places:
                    self.v("acked-still-present", f"end: message {id_} was acknowledged but is in {kinds}", broker=self.kind, reclaimed_live=m.reclaimed_live)
                continue
            if m.unknown:
                continue
            if not places:
                self.v("lost", f"end: message {id_} is nowhere", broker=self.kind, reclaimed_live=m.reclaimed_live)
            elif len(places) > 1:
                self.v("duplicated", f"end: message {id_} is in {[p.short() for p in places]}", broker=self.kind, reclaimed_live=m.reclaimed_live)
            elif kinds == ["held"] and m.holder is None:
                if not any(c.queue == m.queue and c.dead for c in self.cons):
                    self.v("stranded-in-flight", f"end: message {id_} is still marked in-flight after every consumer finished, "
                           "and no client holds it", broker=self.kind)
            elif kinds == ["held"] and not any(c.dead and c.queue == m.queue for c in self.cons):
                self.v("held-after-finish", f"end: message {id_} handed to consumer {m.holder} is still in flight after that "
                       "consumer finished", broker=self.kind)


async def run_history(loop: vclock.VLoop, case: dict, after: Any = None) -> World:
    w = World(loop, case)
    for op in case["ops"]:
        await w.step(op)
    if after is not None:
        r = after(w)
        if asyncio.iscoroutine(r):
            await r
    if case.get("drain", True):
        await w.drain()
    return w


def run(case: dict, after: Any = None, max_steps: int = 600_000) -> World:
    return vclock.run(lambda loop: run_history(loop, case, after), max_steps=max_steps, tz=case.get("tz"))
