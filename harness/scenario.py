"""Worker-level scenario interpreter: scripted actors, producers, a real repid Worker on a virtual loop.

A *case* is plain JSON (see `run_worker_case`).  The interpreter executes it against the real code and
returns a Trace (actor executions, depth-0 broker calls, final broker state, timing of run()).
Oracles live in harness/checks/*.
"""
# NOTE: no `from __future__ import annotations` here: actor annotations must be real objects.
import asyncio
import signal
from dataclasses import dataclass, field
from datetime import timedelta
from typing import Annotated, Any, Callable

from harness import vclock
from harness.brokers import BUCKET_OPS, MSG_OPS, Env, Spy, reset_globals


class CustomError(Exception):
    pass


class BadStrError(Exception):
    """An exception that cannot even be rendered (str() raises): still just a failed execution."""

    def __str__(self) -> str:
        raise RuntimeError("cannot render this exception")


EXC = {
    "ValueError": ValueError,
    "KeyError": KeyError,
    "CustomError": CustomError,
    "TimeoutError": asyncio.TimeoutError,
    "RuntimeError": RuntimeError,
    "ZeroDivisionError": ZeroDivisionError,
    "BadStrError": BadStrError,
}


@dataclass
class Exec:
    id: str
    n: int  # execution index for this id (0-based)
    actor: str
    tried: int  # already_tried carried by the delivered message
    t0: float
    step0: int
    t1: float | None = None
    end: str = "running"  # returned | raised | cancelled | eager | depfail
    outcome: dict | None = None
    after_eager_marker: bool = False
    callbacks: list = field(default_factory=list)
    kwargs: dict | None = None
    next_execution_time: Any = None
    timestamp: Any = None
    fn_tag: str = ""


@dataclass
class Trace:
    case: dict
    env: Env
    spy: Spy
    conn: Any = None
    execs: list = field(default_factory=list)
    active: int = 0
    max_active: int = 0
    active_log: list = field(default_factory=list)  # (t, active) after every change
    run_returned_at: float | None = None
    run_error: BaseException | None = None
    worker_started_at: float | None = None
    stop_requested_at: float | None = None
    stop_step: int | None = None
    final: dict = field(default_factory=dict)
    final_t: float = 0.0
    enqueued: dict = field(default_factory=dict)  # id -> (key, payload, params) as returned by Job.enqueue
    enqueue_t: dict = field(default_factory=dict)
    job_objs: dict = field(default_factory=dict)
    results: dict = field(default_factory=dict)  # id -> ResultBucket|None read after quiescence
    horizon_hit: bool = False
    errors: list = field(default_factory=list)
    extra: dict = field(default_factory=dict)

    def execs_of(self, id_: str) -> list:
        return [e for e in self.execs if e.id == id_]


def table_policy(values: list[float]) -> Callable[..., timedelta]:
    def policy(retry_number: int = 1) -> timedelta:
        i = min(max(retry_number, 1), len(values)) - 1
        return timedelta(seconds=values[i])

    return policy


def make_policy(spec: dict | None) -> Any:
    from repid import default_retry_policy_factory

    if spec is None:
        return table_policy([0.0])
    if spec["kind"] == "table":
        return table_policy(spec["values"])
    return default_retry_policy_factory(min_backoff=spec["min"], max_backoff=spec["max"],
                                        multiplier=spec["mult"], max_exponent=spec["exp"])


def script_for(case: dict, id_: str, n: int) -> dict:
    for j in case["jobs"]:
        if j["id"] == id_:
            att = j.get("attempts") or [{"k": "ret", "v": None}]
            return att[min(n, len(att) - 1)]
    return {"k": "ret", "v": None}


def job_of(case: dict, id_: str) -> dict | None:
    for j in case["jobs"]:
        if j["id"] == id_:
            return j
    return None


def build_router(case: dict, trace: Trace, loop: vclock.VLoop, fn_tag: str = "", actors: list | None = None) -> Any:
    """Router with the scripted actors named in the case: each is one of four shapes
    (plain / req / dep / sync), selected by the actor spec {"name","queue","shape"}."""
    from repid import BasicConverter, Depends, MessageDependency, PydanticConverter, Router

    conv = {"basic": BasicConverter, "pydantic": PydanticConverter, None: None, "default": None}[case.get("converter", "basic")]
    router = Router()
    counters: dict[str, int] = trace.extra.setdefault("counters", {})
    policy = make_policy(case.get("policy"))

    def begin(m: Any, actor_name: str) -> Exec:
        id_ = m.key.id_
        n = counters.get(id_, 0)
        counters[id_] = n + 1
        e = Exec(id_, n, actor_name, m.parameters.retries.already_tried, loop.time(), loop.steps,
                 next_execution_time=m.parameters.delay.next_execution_time, timestamp=m.parameters.timestamp,
                 fn_tag=fn_tag)
        e.outcome = script_for(case, id_, n)
        trace.execs.append(e)
        return e

    def enter(e: Exec) -> None:
        trace.active += 1
        trace.max_active = max(trace.max_active, trace.active)
        trace.active_log.append((loop.time(), trace.active))

    def leave(e: Exec, end: str) -> None:
        trace.active -= 1
        trace.active_log.append((loop.time(), trace.active))
        e.t1 = loop.time()
        e.end = end
        ev = trace.extra.setdefault("done_events", {}).get(e.id)
        if ev is not None:
            ev.set()
        if case.get("read_results_early"):
            # the producer looks at Job.result through the Job object it enqueued, shortly after every execution (not only once at
            # the end): each look must show the bucket as it is then
            job = trace.job_objs.get(e.id)

            async def look() -> None:
                try:
                    r = await job.result
                except Exception as x:  # noqa: BLE001
                    r = x
                trace.extra.setdefault("early_results", []).append((e.id, e.n, loop.time(), r))

            if job is not None and trace.conn is not None and trace.conn.results_bucket_broker is not None:
                loop.call_later(0.03, lambda: asyncio.ensure_future(look()))

    async def perform(e: Exec, m: Any) -> Any:
        o = e.outcome or {"k": "ret", "v": None}
        enter(e)
        try:
            if o.get("sleep"):
                await asyncio.sleep(o["sleep"])
            k = o["k"]
            if k == "ret":
                leave(e, "returned")
                if isinstance(o.get("v"), dict) and o["v"].get("$unserializable"):
                    return object()  # the converter cannot encode this: the execution counts as failed
                return o.get("v")
            if k == "raise":
                leave(e, "raised")
                raise EXC[o["exc"]](o.get("text", ""))
            if k == "cancel":
                # the actor itself ends cancelled (e.g. it awaited something that was cancelled elsewhere)
                leave(e, "self-cancelled")
                raise asyncio.CancelledError()
            if k == "timeout":
                await asyncio.sleep(m.parameters.execution_timeout.total_seconds() + o.get("extra", 5.0))
                leave(e, "returned-late")
                return "late"
            if k == "eager":
                for step in o.get("program", []):
                    if step[0] == "cb":
                        tag = step[1]
                        if step[2] == "sync":
                            m.add_callback(lambda tag=tag: e.callbacks.append(("cb", tag, next(trace.spy.seq))))
                        else:
                            async def _cb(tag: Any = tag) -> None:
                                e.callbacks.append(("cb", tag, next(trace.spy.seq)))
                            m.add_callback(_cb)
                    elif step[0] == "result":
                        m.set_result(step[1])
                    elif step[0] == "exception":
                        m.set_exception(EXC[step[1]](step[2]))
                    elif step[0] == "try_retry":
                        try:
                            await m.retry()
                        except ValueError:
                            e.callbacks.append(("retry-refused", None, next(trace.spy.seq)))
                leave(e, "eager")
                try:
                    if o.get("guard"):
                        # application code often answers inside its own `try: ... except Exception:` (logging and carrying on when
                        # something ordinary fails): the eager response is not an ordinary failure and is not for it to catch
                        try:
                            await getattr(m, o["action"])()
                        except ValueError:
                            raise  # (a refused action - spent retry budget - is an ordinary error: it fails the attempt as usual)
                        except Exception:  # noqa: BLE001
                            e.callbacks.append(("eager-response-caught-as-exception", o["action"], next(trace.spy.seq)))
                    else:
                        await getattr(m, o["action"])()
                finally:
                    if o.get("then"):
                        # while unwinding from the eager response the actor tries another action on the same handle:
                        # the message is settled, the handle must refuse it and nothing may reach the broker
                        try:
                            await getattr(m, o["then"])()
                            e.callbacks.append(("second-action-accepted", o["then"], next(trace.spy.seq)))
                        except ValueError:
                            e.callbacks.append(("second-action-refused", o["then"], next(trace.spy.seq)))
                        except BaseException:  # noqa: BLE001  (the action went through and tried to end the actor again)
                            e.callbacks.append(("second-action-accepted", o["then"], next(trace.spy.seq)))
                e.after_eager_marker = True
                return "after-eager"
            raise AssertionError(f"unknown outcome {o}")
        except asyncio.CancelledError:
            if e.end == "running":
                if o.get("cleanup"):
                    # an actor that tidies up when cancelled (execution timeout, forced shutdown): still in progress meanwhile
                    try:
                        await asyncio.sleep(o["cleanup"])
                    except asyncio.CancelledError:
                        pass
                leave(e, "cancelled")
            raise
        except BaseException:
            if e.end == "running":
                leave(e, "raised")
            raise

    async def provider(m: MessageDependency) -> str:
        id_ = m.key.id_
        n = counters.get(id_, 0)
        o = script_for(case, id_, n)
        if o.get("k") == "depfail":
            counters[id_] = n + 1
            e = Exec(id_, n, "provider", m.parameters.retries.already_tried, loop.time(), loop.steps, fn_tag=fn_tag)
            e.outcome = o
            e.t1 = loop.time()
            e.end = "depfail"
            trace.execs.append(e)
            raise EXC[o.get("exc", "RuntimeError")](o.get("text", "provider failed"))
        if o.get("k") == "depeager":
            # a guard dependency that settles the message itself: an eager response before the actor body is entered
            counters[id_] = n + 1
            e = Exec(id_, n, "provider", m.parameters.retries.already_tried, loop.time(), loop.steps, fn_tag=fn_tag)
            e.outcome = o
            e.t1 = loop.time()
            e.end = "dep-eager"
            trace.execs.append(e)
            await getattr(m, o["action"])()
            e.after_eager_marker = True
        return "dep-value"

    def make(spec: dict) -> None:
        name, queue, shape = spec["name"], spec.get("queue", "default"), spec.get("shape", "plain")
        kw: dict[str, Any] = {"name": name, "queue": queue, "retry_policy": policy}
        if conv is not None:
            kw["converter"] = conv
        if shape == "plain":
            async def plain(m: MessageDependency, x: int = 0) -> Any:
                e = begin(m, name)
                e.kwargs = {"x": x}
                return await perform(e, m)
            router.actor(plain, **kw)
        elif shape == "req":
            async def req(m: MessageDependency, need: int, x: int = 0) -> Any:
                e = begin(m, name)
                e.kwargs = {"need": need, "x": x}
                return await perform(e, m)
            router.actor(req, **kw)
        elif shape == "dep":
            async def dep(m: MessageDependency, d: Annotated[str, Depends(provider)], x: int = 0) -> Any:
                e = begin(m, name)
                e.kwargs = {"x": x, "d": d}
                return await perform(e, m)
            router.actor(dep, **kw)
        elif shape == "dep2":
            async def outer(inner: Annotated[str, Depends(provider)]) -> str:
                return "outer(" + str(inner) + ")"

            async def dep2(m: MessageDependency, d: Annotated[str, Depends(outer)], x: int = 0) -> Any:
                e = begin(m, name)
                e.kwargs = {"x": x, "d": d}
                return await perform(e, m)
            router.actor(dep2, **kw)
        elif shape == "sync":
            def sync_actor(x: int = 0, id_: str = "") -> Any:
                # runs in a worker thread; only return / raise outcomes
                n = counters.get(id_, 0)
                counters[id_] = n + 1
                o = script_for(case, id_, n)
                e = Exec(id_, n, name, -1, loop.time(), loop.steps, fn_tag=fn_tag)
                e.outcome = o
                e.kwargs = {"x": x}
                trace.execs.append(e)
                e.t1 = loop.time()
                if o["k"] == "raise":
                    e.end = "raised"
                    raise EXC[o["exc"]](o.get("text", ""))
                e.end = "returned"
                return o.get("v")
            router.actor(sync_actor, **kw)
        else:
            raise AssertionError(shape)

    for spec in (actors if actors is not None else case["actors"]):
        make(spec)
    return router


def job_kwargs(j: dict, conn: Any) -> dict:
    from repid import PrioritiesT

    kw: dict[str, Any] = {
        "name": j["actor"],
        "queue": j.get("queue", "default"),
        "id_": j["id"],
        "retries": j.get("retries", 0),
        "timeout": timedelta(seconds=j.get("timeout", 600)),
        "result_id": "r-" + j["id"],
        "_connection": conn,
    }
    if j.get("priority") is not None:
        kw["priority"] = PrioritiesT(j["priority"])
    if j.get("defer_by") is not None:
        kw["deferred_by"] = timedelta(seconds=j["defer_by"])
    if j.get("defer_until") is not None:
        kw["deferred_until"] = vclock.at(j["defer_until"])
    if j.get("ttl") is not None:
        kw["ttl"] = timedelta(seconds=j["ttl"])
    if j.get("args") is not None:
        kw["args"] = j["args"]
        kw["args_id"] = "a-" + j["id"]
    if j.get("store_result") is not None:
        kw["store_result"] = j["store_result"]
    if j.get("result_ttl", "unset") != "unset":
        kw["result_ttl"] = None if j["result_ttl"] is None else timedelta(seconds=j["result_ttl"])
    if j.get("use_args_bucketer") is not None:
        kw["use_args_bucketer"] = j["use_args_bucketer"]
    return kw


def default_settled(trace: Trace) -> bool:
    """Every job is acked/dead, or (recurring) has been rescheduled `iterations` times."""
    pr = trace.env.probe()
    now = trace.env.loop.time()
    for j in trace.case["jobs"]:
        id_ = j["id"]
        if id_ not in trace.enqueued:
            return False
        places = pr.get(id_, [])
        if any(not e.done and e.error is None for e in trace.spy.for_id(id_)):
            return False  # a broker call for it is still under way (a RabbitMQ requeue is ack, then publish: nowhere in between)
        if any(p.kind in ("waiting", "held") for p in places):
            if j.get("expect") == "stays":
                continue
            return False
        if j.get("defer_by") is not None:
            resched = [e for e in trace.spy.for_id(id_, ("requeue",)) if e.done and _params_of(e) is not None
                       and _params_of(e).retries.already_tried == 0]
            if len(resched) >= j.get("iterations", 2) or not places or all(p.kind == "dead" for p in places):
                continue
            return False
        if any(p.kind == "delayed" for p in places):
            if j.get("expect") == "stays":
                continue
            return False
    return True


def _params_of(ev: Any) -> Any:
    if len(ev.args) >= 3:
        return ev.args[2]
    return ev.kwargs.get("params")


def _payload_of(ev: Any) -> Any:
    if len(ev.args) >= 2:
        return ev.args[1]
    return ev.kwargs.get("payload")


async def run_worker_case(loop: vclock.VLoop, case: dict, *, settled: Callable[[Trace], bool] | None = None,
                          hook: Callable[[Trace, Any], Any] | None = None) -> Trace:
    """Execute one worker scenario.

    case = {
      "broker": mem|redis|amqp, "seed": int, "lat": [floats], "converter": basic|pydantic|default,
      "actors": [{"name","queue","shape"}], "policy": {...},
      "worker": {"tasks_limit", "messages_limit", "graceful", "start_at"},
      "jobs": [{"id","actor","queue","retries","timeout","defer_by","defer_until","ttl","args","store_result",
                "enqueue_at","attempts":[outcome...],"iterations","expect"}],
      "horizon": seconds, "stop": "signal"|"limit"|"none"
    }
    """
    from repid import Job, Queue, Worker

    reset_globals(case.get("log"))
    env = Env(case.get("broker", "mem"), loop, case.get("seed", 0))
    spy = Spy(loop)
    trace = Trace(case, env, spy)
    conn = env.connection("w0", case.get("lat"), buckets=case.get("buckets", True) and case.get("worker_buckets", True), spy=spy)
    trace.conn = conn
    await conn.connect()
    # jobs may be produced through another connection (e.g. one that has bucket brokers while the worker's has none)
    prod_conn = conn
    if not case.get("worker_buckets", True) and env.kind == "mem":
        prod_conn = env.connection("p0", None, buckets=True)
        await prod_conn.connect()

    router = build_router(case, trace, loop)
    queues = sorted({a.get("queue", "default") for a in case["actors"]} | {j.get("queue", "default") for j in case["jobs"]})
    for q in queues:
        await Queue(q, _connection=conn).declare()

    done_events = trace.extra.setdefault("done_events", {})
    for j in case["jobs"]:
        if j.get("after") is not None:
            done_events.setdefault(j["after"], asyncio.Event())

    async def produce(j: dict) -> None:
        if j.get("after") is not None:
            # arrive exactly when another job's actor body finishes (a slot is about to free)
            await done_events[j["after"]].wait()
            if j.get("after_delay"):
                await asyncio.sleep(j["after_delay"])
        dt = j.get("enqueue_at", 0.0) - loop.time()
        if dt > 0 and j.get("after") is None:
            await asyncio.sleep(dt)
        job = Job(**job_kwargs(j, prod_conn))
        trace.job_objs[j["id"]] = job
        trace.enqueue_t[j["id"]] = loop.time()
        if j.get("defer_by") is not None or j.get("defer_until") is not None:
            # the slot the broker is told at this very instant (brokers evaluate it synchronously on enqueue)
            p0 = job._construct_parameters()
            first = p0.delay.next_execution_time or p0.compute_next_execution_time
            trace.extra.setdefault("first_slot", {})[j["id"]] = None if first is None else vclock.secs(first)
        trace.enqueued[j["id"]] = await job.enqueue()

    producers = [asyncio.ensure_future(produce(j)) for j in case["jobs"]]

    async def inspect(spec: dict) -> None:
        """Somebody looks into a category of a queue while the worker runs (an operator's tool iterating Queue.get_messages): takes up
        to n messages, holds them for a moment and hands them back - by reject() or by just closing the iteration.  That changes
        nothing about what the worker owes the messages."""
        from repid import MessageCategory

        # (connected from the start: on Redis every connect() runs maintenance, which takes messages away from live consumers once
        #  their execution timeout has passed - known finding D24, not what an inspection is about)
        iconn = env.connection("i0", None, buckets=False)  # (no spy: not a disposition of the worker)
        await iconn.connect()
        await asyncio.sleep(max(0.0, spec["at"] - loop.time()))
        # (the consumer API underneath Queue.get_messages(): a consume() that finds nothing is given up by cancelling it, which
        #  leaves the consumer - and what it already handed out - as they are; closing a get_messages() iteration from outside would
        #  already hand everything back)
        b_ = iconn.message_broker
        cons = b_.get_consumer(spec["queue"], None, None, MessageCategory[spec.get("category", "DELAYED")])
        await cons.start()
        taken = []
        try:
            for _ in range(spec.get("n", 1)):
                try:
                    key, _payload, _params = await asyncio.wait_for(cons.consume(), timeout=0.3)
                except asyncio.TimeoutError:
                    break
                taken.append(key)
                trace.extra.setdefault("inspected", []).append((key.id_, loop.time()))
            if taken:
                await asyncio.sleep(spec.get("hold", 0.1))
            if spec.get("how", "reject") == "reject":
                for k_ in taken:
                    await b_.reject(k_)
        finally:
            await cons.finish()  # ("close": whatever is still held goes back the way an abandoned iteration returns it)
            for k_ in taken:
                trace.extra.setdefault("released", {})[k_.id_] = loop.time()
        trace.extra.setdefault("inspections_done", []).append(loop.time())

    producers += [asyncio.ensure_future(inspect(sp)) for sp in case.get("inspect", [])]
    # jobs with enqueue_at <= worker start are enqueued before the worker starts
    w = case.get("worker", {})
    start_at = w.get("start_at", 0.0)
    early = [p for p, j in zip(producers, case["jobs"]) if j.get("enqueue_at", 0.0) <= start_at and j.get("after") is None]
    if early:
        await asyncio.gather(*early)
    if loop.time() < start_at:
        await asyncio.sleep(start_at - loop.time())

    wkw: dict[str, Any] = {"routers": [router], "_connection": conn,
                           "graceful_shutdown_time": w.get("graceful", 25.0),
                           "tasks_limit": w.get("tasks_limit", 1000)}
    if w.get("messages_limit") is not None:
        wkw["messages_limit"] = w["messages_limit"]
    worker = Worker(**wkw)
    trace.extra["worker"] = worker
    if hook is not None:
        r = hook(trace, worker)
        if asyncio.iscoroutine(r):
            await r

    async def run_worker() -> None:
        trace.worker_started_at = loop.time()
        try:
            await worker.run()
        except BaseException as e:  # noqa: BLE001
            trace.run_error = e
            if isinstance(e, asyncio.CancelledError):
                raise
        finally:
            trace.run_returned_at = loop.time()

    wt = asyncio.ensure_future(run_worker())
    is_settled = settled or default_settled
    horizon = case.get("horizon", 60.0)
    stop_mode = case.get("stop", "signal")
    poll = case.get("monitor_poll", 0.05)
    while not wt.done():
        await asyncio.sleep(poll)
        if wt.done():
            break
        if loop.time() >= horizon:
            trace.horizon_hit = True
            trace.extra["at_horizon"] = env.probe()  # where every message was while the worker was still running
            break
        if stop_mode != "limit" and all(p.done() for p in producers) and is_settled(trace):
            break
    if not wt.done():
        if trace.extra.get("stop_injected"):
            pass  # a check already delivered the stop signal at a chosen loop step: just wait for run() to return
        else:
            trace.stop_requested_at = loop.time()
            trace.stop_step = loop.steps
            if not loop.send_signal(signal.SIGTERM):
                trace.errors.append("no signal handler registered at stop time")
                wt.cancel()
        try:
            await asyncio.wait_for(asyncio.shield(wt), timeout=w.get("graceful", 25.0) + 30.0)
        except asyncio.TimeoutError:
            trace.errors.append("worker.run() did not return within graceful+30s after the stop signal")
            wt.cancel()
        except BaseException:  # noqa: BLE001
            pass
    for p in producers:
        if not p.done():
            p.cancel()
    await asyncio.gather(*producers, return_exceptions=True)
    for p in producers:
        if p.done() and not p.cancelled() and p.exception() is not None:
            trace.errors.append(f"producer failed: {p.exception()!r}")
    await vclock.quiesce(loop)
    # "once the worker has returned and the loop is idle": let short broker-internal timers (e.g. the AMQP
    # consumer's 0.1 s delayed reject of a message that arrived while paused) run out
    if case.get("settle_after", 0.5) > 0:
        await asyncio.sleep(case.get("settle_after", 0.5))
    trace.final = env.probe()
    trace.final_t = loop.time()
    for id_, job in trace.job_objs.items():
        if conn.results_bucket_broker is not None:
            try:
                trace.results[id_] = await job.result
            except Exception as e:  # noqa: BLE001
                trace.results[id_] = e
    return trace


def run_case(case: dict, **kw: Any) -> Trace:
    max_steps = case.get("max_steps", 1_500_000)
    return vclock.run(lambda loop: run_worker_case(loop, case, **kw), max_steps=max_steps, tz=case.get("tz"))
