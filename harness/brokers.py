"""Per-case broker environments (in-memory / Redis model / AMQP model), probes and boundary spies."""
from __future__ import annotations

import contextvars
import itertools
import json
import random
import sys
from dataclasses import dataclass, field
from typing import Any, Callable

from harness import vclock

KINDS = ("mem", "redis", "amqp")


@dataclass
class Place:
    kind: str  # waiting | delayed | held | dead
    queue: str
    holder: str | None = None  # client / channel identity for held
    payload: str | None = None
    params: Any = None  # decoded Parameters (or None if undecodable)
    topic: str | None = None
    priority: int | None = None
    due: float | None = None  # virtual seconds at which a delayed message becomes deliverable (if known)

    def short(self) -> str:
        return f"{self.kind}@{self.queue}" + (f"[{self.holder}]" if self.holder else "")


def _lat_fn(lst: list[float] | None) -> Callable[[], float]:
    it = list(lst or [])
    it.reverse()

    def lat() -> float:
        return it.pop() if it else 0.0

    return lat


class Env:
    """One broker 'installation' shared by several connections (= processes) during one case."""

    def __init__(self, kind: str, loop: vclock.VLoop, seed: int = 0) -> None:
        assert kind in KINDS
        self.kind = kind
        self.loop = loop
        self.conns: list[Any] = []
        self.clients: dict[str, Any] = {}
        self._mem_broker = None
        self._mem_args = None
        self._mem_results = None
        random.seed(seed)  # redis get_priorities_order uses random.random()
        if kind == "redis":
            from harness import fredis

            self.rserver = fredis.Server(lambda: vclock._EPOCH_TS + loop.time())
        elif kind == "amqp":
            from harness import famqp

            famqp.install()
            self.aserver = famqp.Server(loop.time)
            self.aserver.slow_confirm = bool(seed % 2)
            self._amqp_lat: dict[str, Callable[[], float]] = {}
            famqp.set_context(self.aserver, self._amqp_lat)

    # ---------------------------------------------------------------- connections
    def connection(self, name: str = "c0", lat: list[float] | None = None, buckets: bool = True,
                   share_memory: bool = True, spy: "Spy | None" = None, bucket_lat: list[float] | None = None) -> Any:
        """A repid Connection for a new 'process' `name` attached to this environment."""
        from repid import Connection, InMemoryBucketBroker, InMemoryMessageBroker

        if self.kind == "mem":
            if not share_memory:
                # an unrelated in-memory installation (a second Repid app in the same process); not probed
                mb = InMemoryMessageBroker()
                ab = InMemoryBucketBroker() if buckets else None
                rb = InMemoryBucketBroker(use_result_bucket=True) if buckets else None
                self.clients[name] = mb
            else:
                if self._mem_broker is None:
                    self._mem_broker = InMemoryMessageBroker()
                    self._mem_args = InMemoryBucketBroker()
                    self._mem_results = InMemoryBucketBroker(use_result_bucket=True)
                # the in-memory broker lives in one process: every "connection" shares the same broker objects
                mb, ab, rb = self._mem_broker, (self._mem_args if buckets else None), (self._mem_results if buckets else None)
                self.clients[name] = self._mem_broker
        elif self.kind == "redis":
            from harness import fredis
            from repid.connections.redis import RedisBucketBroker, RedisMessageBroker

            client = fredis.Client(self.rserver, name, _lat_fn(lat))
            mb = RedisMessageBroker("redis://fake/0")
            mb.conn = client  # type: ignore[assignment]
            ab = rb = None
            if buckets:
                ab = RedisBucketBroker("redis://fake/1")
                ab.conn = fredis.Client(self.rserver, name + ":ab", _lat_fn(bucket_lat))  # type: ignore[assignment]
                rb = RedisBucketBroker("redis://fake/2", use_result_bucket=True)
                rb.conn = fredis.Client(self.rserver, name + ":rb", _lat_fn(None))  # type: ignore[assignment]
            self.clients[name] = client
        else:
            from repid import InMemoryBucketBroker as IMB
            from repid.connections.rabbitmq import RabbitMessageBroker

            self._amqp_lat[name] = _lat_fn(lat)
            mb = RabbitMessageBroker(f"amqp://fake/{name}")
            # repid has no AMQP bucket broker; every connection gets its own in-memory ones (a broker object
            # belongs to exactly one Connection, which installs its signal emitter on it)
            ab, rb = (IMB() if buckets else None), (IMB(use_result_bucket=True) if buckets else None)
            self.clients[name] = mb
        if spy is not None:
            mb = BoundaryProxy(mb, spy, MSG_OPS, name)
            if ab is not None:
                ab = BoundaryProxy(ab, spy, BUCKET_OPS, name + ":ab")
            if rb is not None:
                rb = BoundaryProxy(rb, spy, BUCKET_OPS, name + ":rb")
        conn = Connection(mb, ab, rb)
        self.conns.append(conn)
        return conn

    def kill(self, name: str) -> None:
        """Process death of client `name` (Redis / AMQP): no further command reaches the server."""
        if self.kind == "redis":
            self.clients[name].dead = True
        elif self.kind == "amqp":
            from harness import famqp

            for c in famqp._CTX["conns"]:
                if c.name == name:
                    c.kill()

    # ---------------------------------------------------------------- probe
    def probe(self) -> dict[str, list[Place]]:
        if self.kind == "mem":
            return self._probe_mem()
        if self.kind == "redis":
            return self._probe_redis()
        return self._probe_amqp()

    def _probe_mem(self) -> dict[str, list[Place]]:
        out: dict[str, list[Place]] = {}
        b = self._mem_broker
        if b is None:
            return out
        for qn, q in b.queues.items():
            def add(kind: str, m: Any, due: Any = None) -> None:
                out.setdefault(m.key.id_, []).append(Place(
                    kind, qn, None, m.payload, m.parameters, m.key.topic, m.key.priority,
                    None if due is None else vclock.secs(due)))
            for m in list(q.simple._queue):  # type: ignore[attr-defined]
                add("waiting", m)
            for t, msgs in q.delayed.items():
                for m in msgs:
                    add("delayed", m, t)
            for m in q.dead:
                add("dead", m)
            for m in q.processing:
                add("held", m)
        return out

    def _probe_redis(self) -> dict[str, list[Place]]:
        from repid.data._parameters import Parameters

        s = self.rserver
        s._purge()
        out: dict[str, list[Place]] = {}
        hashes = {k: v for k, v in s.kv.items() if k.startswith("m:") and isinstance(v, dict)}

        def details(queue: str, prio: int, short: str) -> tuple:
            h = hashes.get(f"m:{queue}:{prio}:{short}")
            if h is None:
                return (None, None)
            pl = h.get(b"payload")
            pr = h.get(b"parameters")
            try:
                params = Parameters.decode(pr.decode()) if pr is not None else None
            except Exception:  # noqa: BLE001
                params = None
            return (None if pl is None else pl.decode(), params)

        for k, v in s.kv.items():
            if not k.startswith("q:"):
                continue
            # (read from the right: names the pinned validators accept contain no ':'; if the tree under test lets one through, the
            #  probe still says where things are instead of failing itself)
            queue, prio, marker = k[2:].rsplit(":", 2)
            kind = {"n": "waiting", "d": "delayed", "dead": "dead"}.get(marker, "garbled")
            prio = int(prio) if prio.isdigit() else -1
            members = [(m, None) for m in v] if isinstance(v, list) else [(m, sc) for m, sc in v.items()]
            for m, sc in members:
                short = m.decode()
                topic, _, id_ = short.rpartition(":")
                pl, params = details(queue, int(prio), short)
                out.setdefault(id_, []).append(Place(kind, queue, None, pl, params, topic, int(prio),
                                                     None if sc is None else sc - vclock._EPOCH_TS))
        proc = s.kv.get("processing") or {}
        for m in proc:
            short = m.decode()
            topic, _, id_ = short.rpartition(":")
            found = [k for k in hashes if k.endswith(":" + short)]
            if not found:
                out.setdefault(id_, []).append(Place("held", "?", "ghost-no-hash", None, None, topic, None))
            for k in found:
                queue, _, prio = k[2: len(k) - len(short) - 1].rpartition(":")
                prio = int(prio) if prio.isdigit() else -1
                pl, params = details(queue, int(prio), short)
                out.setdefault(id_, []).append(Place("held", queue, None, pl, params, topic, int(prio)))
        return out

    def _probe_amqp(self) -> dict[str, list[Place]]:
        from repid.data._parameters import Parameters

        out: dict[str, list[Place]] = {}

        def add(kind: str, base: str, m: Any, holder: str | None = None) -> None:
            try:
                d = json.loads(m.body)
                params = Parameters.decode(d["parameters"]) if d.get("parameters") else None
                payload = d.get("payload")
            except Exception:  # noqa: BLE001
                params, payload = None, None
            hd = m.props.headers or {}
            out.setdefault(m.props.message_id, []).append(Place(
                kind, base, holder, payload, params, hd.get("topic"), m.props.priority,
                m.expires_at))

        for qn, q in self.aserver.queues.items():
            if qn.endswith(":delayed"):
                kind, base = "delayed", qn[: -len(":delayed")]
            elif qn.endswith(":dead"):
                kind, base = "dead", qn[: -len(":dead")]
            else:
                kind, base = "waiting", qn
            for m in q.all():
                add(kind, base, m)
        from harness import famqp

        for c in famqp._CTX["conns"]:
            for ch in c.chs:
                for (q, m, _ctag) in ch.unacked.values():
                    base = q.name.split(":")[0]
                    add("held", base, m, c.name)
        return out


# --------------------------------------------------------------------------------------------
# boundary spy: wraps broker-instance methods *above* repid's middleware wrapper; logs depth-0 calls only

_depth: contextvars.ContextVar[int] = contextvars.ContextVar("verif_spy_depth", default=0)

MSG_OPS = ("enqueue", "ack", "nack", "reject", "requeue")
BUCKET_OPS = ("get_bucket", "store_bucket", "delete_bucket")


@dataclass
class SpyEvent:
    op: str
    t: float
    step: int
    args: tuple
    kwargs: dict
    done: bool = False
    error: str | None = None
    t_done: float | None = None
    who: str = ""
    caller: str = ""
    seq: int = 0

    @property
    def key(self) -> Any:
        return self.args[0] if self.args else self.kwargs.get("key")


class Spy:
    def __init__(self, loop: vclock.VLoop) -> None:
        self.loop = loop
        self.events: list[SpyEvent] = []
        self.seq = itertools.count(1)  # shared order counter (scripted actor callbacks draw from it too)
        self.faults: dict[str, Callable[[SpyEvent], BaseException | None]] = {}

    def attach(self, broker: Any, ops: tuple, who: str = "") -> None:
        for op in ops:
            inner = getattr(broker, op)
            setattr(broker, op, self._wrap(op, inner, who))

    def _wrap(self, op: str, inner: Any, who: str) -> Any:
        spy = self

        async def wrapped(*args: Any, **kwargs: Any) -> Any:
            d = _depth.get()
            if d > 0:
                return await inner(*args, **kwargs)
            ev = SpyEvent(op, spy.loop.time(), spy.loop.steps, args, kwargs, who=who,
                          caller=sys._getframe(1).f_code.co_name, seq=next(spy.seq))
            spy.events.append(ev)
            fault = spy.faults.get(op)
            if fault is not None:
                exc = fault(ev)
                if exc is not None:
                    ev.error = type(exc).__name__
                    raise exc
            tok = _depth.set(d + 1)
            try:
                r = await inner(*args, **kwargs)
            except BaseException as e:  # noqa: BLE001
                ev.error = type(e).__name__
                ev.t_done = spy.loop.time()
                raise
            finally:
                _depth.reset(tok)
            ev.done = True
            ev.t_done = spy.loop.time()
            return r

        wrapped.__name__ = op
        wrapped._verif_inner = inner  # type: ignore[attr-defined]
        return wrapped

    def for_id(self, id_: str, ops: tuple = MSG_OPS) -> list[SpyEvent]:
        return [e for e in self.events if e.op in ops and getattr(e.key, "id_", None) == id_]


class BoundaryProxy:
    """Stands in for a broker inside a Connection.  Calls made *through the connection* (worker, Job, Message,
    Queue) are logged by the spy; calls a broker or consumer makes on itself bypass the proxy, so
    broker-internal actions (prefetch returns, overdue dead-lettering, maintenance) are not mistaken for
    dispositions made by the worker."""

    def __init__(self, real: Any, spy: "Spy", ops: tuple, who: str) -> None:
        object.__setattr__(self, "_real", real)
        object.__setattr__(self, "_spy", spy)
        object.__setattr__(self, "_ops", {})
        for op in ops:
            self._ops[op] = spy._wrap(op, _late(real, op), who)

    def __getattr__(self, name: str) -> Any:
        ops = object.__getattribute__(self, "_ops")
        if name in ops:
            return ops[name]
        return getattr(object.__getattribute__(self, "_real"), name)

    def __setattr__(self, name: str, value: Any) -> None:
        setattr(object.__getattribute__(self, "_real"), name, value)


def _late(real: Any, op: str) -> Any:
    async def call(*a: Any, **k: Any) -> Any:
        return await getattr(real, op)(*a, **k)

    return call


def unwrap(broker: Any) -> Any:
    try:
        return object.__getattribute__(broker, "_real")
    except AttributeError:
        return broker


_LOG_SINK: list = []  # (level, message) of the current case when it runs with the repid logger enabled


class _SinkHandler(__import__("logging").Handler):
    def emit(self, record: Any) -> None:  # formats the record like any real handler would (a formatting error is the handler's, as in logging)
        try:
            _LOG_SINK.append((record.levelno, record.getMessage()))
        except Exception:  # noqa: BLE001  (logging.Handler.handleError does the same: never propagates)
            _LOG_SINK.append((record.levelno, "<unformattable>"))
        if len(_LOG_SINK) > 2000:
            del _LOG_SINK[:1000]


_SINK = _SinkHandler()


def reset_globals(log: str | None = None) -> None:
    """Reset process-wide repid state between cases (thread-local connection, Config, class-level emitter).
    log: level name the host application enabled for the "repid" logger (None: the library default, i.e. WARNING effective)."""
    import logging

    lg = logging.getLogger("repid")
    _LOG_SINK.clear()
    if log:
        lg.setLevel(getattr(logging, log))
        if _SINK not in lg.handlers:
            lg.addHandler(_SINK)
        lg.propagate = False
    else:
        lg.setLevel(logging.NOTSET)
        if _SINK in lg.handlers:
            lg.removeHandler(_SINK)
    from repid import Config
    from repid.converter import DefaultConverter
    from repid.main import Repid
    from repid._processor import _Processor

    loc = Repid._Repid__local  # type: ignore[attr-defined]
    if hasattr(loc, "connection"):
        delattr(loc, "connection")
    Config.CONVERTER = DefaultConverter
    try:
        _Processor.actor_run._repid_signal_emitter = None
    except Exception:  # noqa: BLE001
        pass
