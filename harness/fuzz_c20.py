"""atheris (libFuzzer) target for C20's protocol layer: raw bytes -> _HttpServerProtocol, oracle = checks.c20.run_proto.

usage: python -m harness.fuzz_c20 OUT_JSON [libFuzzer args...]
"""
import json
import re
import sys

import atheris

import repid.health_check_server as _h  # noqa: E402

# instrument the code under test explicitly (import hooks do not see the editable install reliably)
for _name in ("data_received", "handle_request", "connection_made"):
    setattr(_h._HttpServerProtocol, _name, atheris.instrument_func(getattr(_h._HttpServerProtocol, _name)))

from harness.checks import c20  # noqa: E402

OUT = sys.argv[1]
STATS = {"evaluations": 0, "nontrivial": 0, "failure": None, "samples": [], "nontrivial_cases": []}
_SEEN: set = set()
ENDPOINTS = ["/healthz", "/", "/a/b-c", "/h~._"]


def decode(data: bytes) -> dict:
    fdp = atheris.FuzzedDataProvider(data)
    ep = ENDPOINTS[fdp.ConsumeIntInRange(0, len(ENDPOINTS) - 1)]
    status = 200 if fdp.ConsumeBool() else 503
    ncuts = fdp.ConsumeIntInRange(0, 4)
    cuts = sorted(fdp.ConsumeIntInRange(0, 300) for _ in range(ncuts))
    if fdp.ConsumeBool():
        raw = f"GET {ep} HTTP/1.1\r\n".encode() + fdp.ConsumeBytes(fdp.remaining_bytes())
    else:
        raw = fdp.ConsumeBytes(fdp.remaining_bytes())
    wf = bool(re.match(rb"^[A-Z]+ [^ \r\n]+ HTTP/\d\.\d\r\n([^\r\n]+\r\n)*\r\n", raw)) and raw.isascii()
    try:
        first = raw.decode().split("\r\n")[0].split(" ")
        method, path = first[0], first[1]
    except Exception:  # noqa: BLE001
        method, path = "?", "?"
    return {"endpoint": ep, "status": status, "cuts": cuts,
            "req": {"kind": "fuzzed", "hex": raw.hex(), "well_formed": wf, "method": method, "path": path}}


def target(data: bytes) -> None:
    case = decode(data)
    out = c20.run_proto(case)
    STATS["evaluations"] += 1
    if STATS["evaluations"] % 2000 == 0:
        flush()  # atexit / finally do not run when libFuzzer ends the process
    STATS["nontrivial"] += bool(out.nontrivial)
    if out.nontrivial and bytes.fromhex(case["req"]["hex"]):
        h = hash((case["endpoint"], case["status"], case["req"]["hex"], tuple(case["cuts"])))
        if h not in _SEEN and len(_SEEN) < 5000:
            _SEEN.add(h)
            STATS["nontrivial_cases"].append(case)
            if len(STATS["samples"]) < 3:
                STATS["samples"].append(case)
    if out.violations:
        STATS["failure"] = {"case": case, "violations": [{"sub": v.sub, "msg": v.msg, "facts": v.facts} for v in out.violations]}
        flush()
        raise AssertionError(out.violations[0].msg)


def flush() -> None:
    with open(OUT, "w") as f:
        json.dump(STATS, f)


import atexit  # noqa: E402

if __name__ == "__main__":
    argv = [sys.argv[0]] + sys.argv[2:]
    atheris.Setup(argv, target)
    try:
        atheris.Fuzz()
    finally:
        flush()
