"""Kill lists (DESIGN.md §4 per property, §6).  Each mutant: name, edits [(file, old, new)], checks that must kill it."""
P = "repid/_processor.py"
MUTANTS = [
    {"name": "c02-retry-boundary-le", "checks": ["C02", "C04"],
     "edits": [(P, "parameters.retries.already_tried < parameters.retries.max_amount", "parameters.retries.already_tried <= parameters.retries.max_amount")]},
    {"name": "c02-swap-ack-nack", "checks": ["C02"],
     "edits": [(P, "        elif result.success:\n            await self._conn.message_broker.ack(key)\n        # nack\n        else:\n            await self._conn.message_broker.nack(key)",
                   "        elif not result.success:\n            await self._conn.message_broker.ack(key)\n        # nack\n        else:\n            await self._conn.message_broker.nack(key)")]},
    {"name": "c02-drop-reporting-done-return", "checks": ["C02"],
     "edits": [(P, "                self._processed += 1\n                return\n", "                self._processed += 1\n")]},
    {"name": "c02-noaction-as-failure", "checks": ["C02"],
     "edits": [(P, "                reporting_done=True,", "                reporting_done=False,")]},
]
PA = "repid/data/_parameters.py"
MUTANTS += [
    {"name": "c04-tried-plus-2", "checks": ["C04"],
     "edits": [(PA, 'object.__setattr__(copy.retries, "already_tried", copy.retries.already_tried + 1)', 'object.__setattr__(copy.retries, "already_tried", copy.retries.already_tried + 2)')]},
    {"name": "c04-policy-arg-off-by-one", "checks": ["C04"],
     "edits": [(P, "parameters._prepare_retry(actor.retry_policy(parameters.retries.already_tried + 1))", "parameters._prepare_retry(actor.retry_policy(max(parameters.retries.already_tried, 1)))")]},
    {"name": "c04-retry-forgets-delay", "checks": ["C04"],
     "edits": [(PA, '            datetime.now() + next_retry,\n', '            datetime.now(),\n')]},
    {"name": "c04-redis-delay-floor", "checks": ["C04", "C05"],
     "edits": [("repid/connections/redis/utils.py", "        return math.ceil(params.delay.next_execution_time.timestamp())", "        return int(params.delay.next_execution_time.timestamp())")]},
]
R = "repid/_runner.py"
MUTANTS += [
    {"name": "c10-revert-started-limit", "checks": ["C10"],
     "edits": [(R, "            if self._tasks_started >= self.max_tasks:\n                break  # never start more than max_tasks executions\n", ""),
               (R, "            if self._tasks_started >= self.max_tasks:\n                # the limit was reached", "            if False:\n                # the limit was reached")]},
    {"name": "c10-limit-off-by-one", "checks": ["C10"],
     "edits": [(R, "            if self._tasks_started >= self.max_tasks:\n                break  # never", "            if self._tasks_started > self.max_tasks:\n                break  # never"),
               (R, "            if self._tasks_started >= self.max_tasks:\n                # the limit was reached", "            if self._tasks_started > self.max_tasks:\n                # the limit was reached")]},
    {"name": "c10-stop-event-never-set", "checks": ["C10"],
     "edits": [(R, "        if self.max_tasks_hit:\n            self.stop_consume_event.set()", "        if self.max_tasks_hit:\n            pass")]},
    # (removed: "c10-no-handback-on-cancel" - dropping the runner's hand-back of a message that waited for a slot became
    #  behaviour-preserving once every consumer's finish() returns its unsettled messages (D2/D3, D22c, D25): the message is
    #  back in its queue, counter unchanged, when run() returns either way)
]
MUTANTS += [
    {"name": "c09-release-twice", "checks": ["C09"],
     "edits": [(R, "        self._tasks.discard(task)\n        self._limiter.release()\n", "        self._tasks.discard(task)\n        self._limiter.release()\n        self._limiter.release()\n")]},
    {"name": "c09-never-unpause", "checks": ["C09"],
     "edits": [(R, "                    await self._limiter.acquire()\n                    await consumer.unpause()\n", "                    await self._limiter.acquire()\n")]},
    {"name": "c09-no-acquire-when-unlocked", "checks": ["C09"],
     "edits": [(R, "                else:\n                    await self._limiter.acquire()\n", "                else:\n                    pass\n")]},
    {"name": "c09-never-release", "checks": ["C09"],
     "edits": [(R, "        self._tasks.discard(task)\n        self._limiter.release()\n", "        self._tasks.discard(task)\n")]},
]
MUTANTS += [
    {"name": "c06-grid-plus-one-dropped", "checks": ["C06", "C19"],
     "edits": [(PA, "defer_by_times = (now - base) // self.delay.defer_by + 1", "defer_by_times = (now - base) // self.delay.defer_by")]},
    {"name": "c06-tried-not-reset", "checks": ["C06"],
     "edits": [(PA, '        object.__setattr__(copy.retries, "already_tried", 0)\n', '')]},
    {"name": "c06-reschedule-also-acks", "checks": ["C06", "C02"],
     "edits": [(P, "            await self._conn.message_broker.requeue(\n                key,\n                payload,\n                parameters._prepare_reschedule(),\n            )", "            await self._conn.message_broker.requeue(\n                key,\n                payload,\n                parameters._prepare_reschedule(),\n            )\n            await self._conn.message_broker.ack(key)")]},
    {"name": "c06-anchor-not-kept", "checks": ["C06"],
     "edits": [(PA, '            object.__setattr__(copy.delay, "delay_until", next_execution_time)\n', '            pass\n')]},
    {"name": "c06-timestamp-not-restarted", "checks": ["C06"],
     "edits": [(PA, '        object.__setattr__(copy, "timestamp", datetime.now())\n        return copy', '        return copy')]},
]
MD = "repid/dependencies/message_dependency.py"
MUTANTS += [
    {"name": "c13-success-flag-inverted", "checks": ["C13"],
     "edits": [(P, "                success=result_actor.success,\n                exception=None,", "                success=not result_actor.success,\n                exception=None,")]},
    {"name": "c13-store-when-disabled", "checks": ["C13"],
     "edits": [(P, "        if result_params is None:\n            return\n", "        if result_params is None:\n            result_params = self._conn.message_broker.PARAMETERS_CLASS.RESULT_CLASS(id_='r-' + 'x')\n")]},
    {"name": "c13-eager-keeps-first-set", "checks": ["C13", "C16"],
     "edits": [(MD, "        data = self._actor_data.converter.convert_outputs(result)\n", "        data = self._actor_data.converter.convert_outputs(result)\n        if self.__result_success is not None:\n            return\n")]},
    {"name": "c13-exception-text-repr", "checks": ["C13"],
     "edits": [(P, "                data=str(result_actor.exception),", "                data=repr(result_actor.exception),")]},
    {"name": "c13-eager-store-failure-propagates", "checks": ["C13"],
     "edits": [(MD, "            try:\n                await store_result()\n            except Exception:  # noqa: BLE001", "            try:\n                await store_result()\n            except KeyError:  # noqa: BLE001")]},
    {"name": "c13-result-ttl-dropped", "checks": ["C13"],
     "edits": [(P, "                exception=None,\n                timestamp=datetime.now(),\n                ttl=result_params.ttl,", "                exception=None,\n                timestamp=datetime.now(),\n                ttl=None,")]},
]
MC = "repid/connections/in_memory/consumer.py"
RC = "repid/connections/redis/consumer.py"
AB = "repid/connections/rabbitmq/message_broker.py"
MUTANTS += [
    {"name": "c05-mem-due-comparison-flipped", "checks": ["C05"],
     "edits": [(MC, "            if time_ < now:", "            if time_ > now:")]},
    {"name": "c05-redis-lookahead-5s", "checks": ["C05"],
     "edits": [(RC, "                    end=unix_time(),  # maximum score", "                    end=unix_time() + 5,  # maximum score")]},
    {"name": "c05-amqp-expiration-in-seconds", "checks": ["C05"],
     "edits": [(AB, "                (delayed - datetime.now()).total_seconds() * 1000,", "                (delayed - datetime.now()).total_seconds(),")]},
    {"name": "c05-mem-no-periodic-update", "checks": ["C05"],
     "edits": [(MC, "                counter -= self.UPDATE_DELAYED_EVERY\n                self.__update_delayed()", "                counter -= self.UPDATE_DELAYED_EVERY")]},
    {"name": "c05-mem-update-every-5s", "checks": ["C05"],
     "edits": [(MC, "    UPDATE_DELAYED_EVERY = 1.0", "    UPDATE_DELAYED_EVERY = 5.0")]},
    {"name": "c05-amqp-delayed-to-main-queue", "checks": ["C05"],
     "edits": [(AB, "            routing_key=self.qnc(key.queue, delayed=exp is not None),", "            routing_key=self.qnc(key.queue, delayed=False),")]},
]
AC = "repid/connections/rabbitmq/consumer.py"
MUTANTS += [
    {"name": "c12-overdue-comparison-flipped", "checks": ["C12", "C19"],
     "edits": [(PA, "        return datetime.now(tz=self.timestamp.tzinfo) > self.timestamp + self.ttl", "        return datetime.now(tz=self.timestamp.tzinfo) < self.timestamp + self.ttl")]},
    {"name": "c12-overdue-ge", "checks": ["C12", "C19"],
     "edits": [(PA, "        return datetime.now(tz=self.timestamp.tzinfo) > self.timestamp + self.ttl", "        return datetime.now(tz=self.timestamp.tzinfo) >= self.timestamp + self.ttl")]},
    {"name": "c12-amqp-overdue-requeued", "checks": ["C12"],
     "edits": [(AC, "            await self.broker._channel.basic_nack(message.delivery_tag, requeue=False)\n            logger.debug(\"Message is overdue", "            await self.broker._channel.basic_nack(message.delivery_tag, requeue=True)\n            logger.debug(\"Message is overdue")]},
    {"name": "c12-mem-overdue-dropped", "checks": ["C12"],
     "edits": [(MC, "            self._queue.dead.append(msg)\n            return None", "            return None")]},
    {"name": "c12-mem-overdue-check-removed", "checks": ["C12"],
     "edits": [(MC, "        if msg.parameters.is_overdue:  # ttl expired", "        if False:  # ttl expired")]},
    {"name": "c12-redis-dead-consumer-nacks-overdue", "checks": ["C12"],
     "edits": [(RC, "            if params.is_overdue and self.category == MessageCategory.NORMAL:", "            if params.is_overdue:")]},
    {"name": "c12-retry-restarts-ttl", "checks": ["C12", "C04"],
     "edits": [(PA, '            datetime.now() + next_retry,\n        )\n        return copy', '            datetime.now() + next_retry,\n        )\n        object.__setattr__(copy, "timestamp", datetime.now())\n        return copy')]},
]
MUTANTS += [
    {"name": "c14-redis-no-watch", "checks": ["C14", "C01"],
     "edits": [(RC, "            await pipe.watch(full_queue_name)\n", ""), (RC, "            pipe.multi()\n", "")]},
    {"name": "c14-mem-finish-returns-all", "checks": ["C14", "C01"],
     "edits": [(MC, "            if taken is not None and taken[2] is self:", "            if True:")]},
    {"name": "c14-redis-processing-score-floor", "checks": ["C14", "C03"],
     "edits": [(RC, "{msg_short_name: str(time.time())}", "{msg_short_name: str(unix_time())}")]},
    {"name": "c14-amqp-finish-ignores-tag", "checks": ["C14", "C01"],
     "edits": [(AC, "            if self.broker._id_to_delivery_tag.get(id_) == tag:\n                del self.broker._id_to_delivery_tag[id_]\n                rejects.append(self.broker._channel.basic_reject(tag))",
                    "            if id_ in self.broker._id_to_delivery_tag:\n                tag = self.broker._id_to_delivery_tag.pop(id_)\n                rejects.append(self.broker._channel.basic_reject(tag))")]},
    {"name": "c14-redis-reject-keeps-processing-mark", "checks": ["C14", "C01"],
     "edits": [("repid/connections/redis/message_broker.py", "                    in_front=True,\n                )\n            self.__unmark_processing(key, pipe)\n            await pipe.execute()\n\n    async def requeue", "                    in_front=True,\n                )\n            await pipe.execute()\n\n    async def requeue")]},
]
RB = "repid/connections/redis/message_broker.py"
MUTANTS += [
    {"name": "c15-redis-window-newest-first", "checks": ["C15"],
     "edits": [(RC, "                names.reverse()  # the oldest message is at the very end of the queue\n", "")]},
    {"name": "c15-redis-new-messages-at-tail", "checks": ["C15"],
     "edits": [(RB, "            if not in_front:\n                pipe.lpush(qnc(key.queue, key.priority), mnc(key, short=True))", "            if not in_front:\n                pipe.rpush(qnc(key.queue, key.priority), mnc(key, short=True))")]},
    {"name": "c15-mem-lifo", "checks": ["C15"],
     "edits": [("repid/connections/in_memory/utils.py", "    simple: asyncio.Queue[Message] = field(default_factory=asyncio.Queue)", "    simple: asyncio.Queue[Message] = field(default_factory=asyncio.LifoQueue)")]},
    {"name": "c15-redis-window-offset-stuck", "checks": ["C15"],
     "edits": [(RC, "                offset -= self.PREFETCH_AMOUNT  # reversed offset", "                offset -= 0  # reversed offset")]},
]
RU = "repid/connections/redis/utils.py"
MUTANTS += [
    {"name": "c07-encoder-drops-microseconds", "checks": ["C07"],
     "edits": [("repid/_utils/json_encoder.py", "            return obj.total_seconds()", "            return float(int(obj.total_seconds()))")]},
    {"name": "c07-redis-name-dash-separator", "checks": ["C07"],
     "edits": [(RU, '    return f"{prefix}{key.topic}:{key.id_}"', '    return f"{prefix}{key.topic}-{key.id_}"'),
               (RU, '    topic, id_ = short_name.split(":")', '    topic, id_ = short_name.split("-", 1)')]},
    {"name": "c07-amqp-queue-header-ignored", "checks": ["C07"],
     "edits": [(AC, '            msg_queue = message.header.properties.headers.get("queue", "default")', '            msg_queue = message.header.properties.headers.get("queue_name", "default")')]},
    {"name": "c07-bucket-marker-check-offset", "checks": ["C07"],
     "edits": [("repid/_utils/args_bucket_in_message_id.py", "        return string.find(cls.KEY, 0, len(cls.KEY) + 3) != -1", "        return string.find(cls.KEY, 0, len(cls.KEY) + 1) != -1")]},
    {"name": "c07-datetime-decode-drops-tz", "checks": ["C07"],
     "edits": [(PA, '            elif key == "timestamp":\n                loaded[key] = datetime.fromisoformat(value)', '            elif key == "timestamp":\n                loaded[key] = datetime.fromisoformat(value).replace(tzinfo=None)')]},
    {"name": "c07-job-ttl-not-propagated", "checks": ["C07"],
     "edits": [("repid/job.py", "            timestamp=self.timestamp,\n            ttl=self.ttl,", "            timestamp=self.timestamp,\n            ttl=None,")]},
    {"name": "c07-amqp-priority-zero-as-medium", "checks": ["C07"],
     "edits": [(AC, "                        if message.header.properties.priority is not None\n", "                        if message.header.properties.priority\n")]},
    {"name": "c07-redis-topic-prefix-without-colon", "checks": ["C11"],
     "edits": [(RC, '        new_topics = tuple(x + ":" for x in topics)', '        new_topics = tuple(x for x in topics)')]},
]
CV = "repid/converter.py"
MUTANTS += [
    {"name": "c08-basic-missing-required-passes-empty", "checks": ["C08"],
     "edits": [(CV, "            if default is inspect.Parameter.empty and name not in loaded:\n                raise TypeError", "            if False:\n                raise TypeError")]},
    {"name": "c08-basic-extras-into-named-kwargs", "checks": ["C08"],
     "edits": [(CV, "        if self.all_kwargs:\n            kwargs.update(loaded)", "        if True:\n            kwargs.update(loaded)")]},
    {"name": "c08-pydantic-posonly-order-reversed", "checks": ["C08"],
     "edits": [(CV, "            return ([loaded.pop(arg) for arg in self.args], loaded)\n\n        return ([], loaded)\n\n    def convert_outputs(self, data: FnR) -> str:\n        if not self.validate_output:  # there is not type to validate\n            return JSON_ENCODER.encode(data)  # fallback to JSON encoding\n        if self.output_is_model:\n            if isinstance(data, BaseModel):\n                return data.model_dump_json()",
                    "            return ([loaded.pop(arg) for arg in reversed(self.args)], loaded)\n\n        return ([], loaded)\n\n    def convert_outputs(self, data: FnR) -> str:\n        if not self.validate_output:  # there is not type to validate\n            return JSON_ENCODER.encode(data)  # fallback to JSON encoding\n        if self.output_is_model:\n            if isinstance(data, BaseModel):\n                return data.model_dump_json()")]},
    {"name": "c08-pydantic-empty-payload-raises", "checks": ["C08", "C02"],
     "edits": [(CV, 'model_validate_json(data or "{}")', "model_validate_json(data)")]},
    {"name": "c08-basic-default-ignored-uses-none", "checks": ["C08"],
     "edits": [(CV, "        kwargs = {name: loaded.pop(name, self.kwargs[name]) for name in self.kwargs}", "        kwargs = {name: loaded.pop(name, None) for name in self.kwargs}")]},
    {"name": "c08-basic-varargs-kw-collision", "checks": ["C08"],
     "edits": [(CV, "            args.extend(kwargs.pop(name) for name in self.positional_or_keyword)\n", "")]},
    {"name": "c08-pydantic-return-annotation-nonclass", "checks": ["C08"],
     "edits": [(CV, "            self.output_is_model = inspect.isclass(self.output_type) and issubclass(", "            self.output_is_model = issubclass(")]},
    {"name": "c08-default-converter-is-basic", "checks": ["C08"],
     "edits": [(CV, '        if is_installed("pydantic", ">=2.0.0,<3.0.0"):\n            return PydanticConverter(fn)', '        if is_installed("pydantic", ">=3.0.0,<4.0.0"):\n            return PydanticConverter(fn)')]},
]
DP = "repid/dependencies/depends.py"
MUTANTS += [
    {"name": "c18-override-keeps-old-subdependencies", "checks": ["C18"],
     "edits": [(DP, "    def override(self, fn: Callable[..., Any | Coroutine], *, run_in_process: bool = False) -> None:\n        self._fn = asyncify(fn, run_in_process=run_in_process)\n        self._update_subdependencies()", "    def override(self, fn: Callable[..., Any | Coroutine], *, run_in_process: bool = False) -> None:\n        self._fn = asyncify(fn, run_in_process=run_in_process)")]},
    {"name": "c18-subdependency-values-swapped", "checks": ["C18"],
     "edits": [(DP, "        dependency_kwargs = dict(zip(unresolved_dependencies_names, resolved))\n\n        return await self._fn(**dependency_kwargs)", "        dependency_kwargs = dict(zip(unresolved_dependencies_names, reversed(resolved)))\n\n        return await self._fn(**dependency_kwargs)")]},
    {"name": "c18-provider-exception-swallowed", "checks": ["C18"],
     "edits": [(DP, "        return await self._fn(**dependency_kwargs)", "        try:\n            return await self._fn(**dependency_kwargs)\n        except Exception:\n            return None")]},
    {"name": "c18-actor-dependency-values-swapped", "checks": ["C18"],
     "edits": [(P, "            dependency_kwargs = dict(zip(unresolved_dependencies_names, resolved))", "            dependency_kwargs = dict(zip(unresolved_dependencies_names, reversed(resolved)))")]},
    {"name": "c18-provider-required-arg-accepted", "checks": ["C18"],
     "edits": [(DP, '            if p.default is inspect.Parameter.empty:\n                raise ValueError("Non-dependency arguments without defaults are not supported.")', '            if False:\n                raise ValueError("Non-dependency arguments without defaults are not supported.")')]},
    {"name": "c18-posonly-dependency-accepted", "checks": ["C18"],
     "edits": [(CV, '                if get_dependency(p.annotation) is not None:\n                    raise ValueError("Dependencies in positional-only arguments are not supported.")\n                self.args[p.name] = p.default', '                self.args[p.name] = p.default')]},
    {"name": "c18-message-dependency-shared-across-messages", "checks": ["C18"],
     "edits": [(MD, "        instance = cls(\n            key=context.message_key,", "        instance = getattr(cls, '_cached', None) or cls(\n            key=context.message_key,"),
               (MD, "        instance._actor_data = context.actor_data\n", "        cls._cached = instance\n        instance._actor_data = context.actor_data\n")]},
]
MS = "repid/message.py"
MUTANTS += [
    {"name": "c16-readonly-set-before-broker-call-is-fine-but-never-set", "checks": ["C16"],
     "edits": [(MS, "        await self._connection.message_broker.ack(self._key)\n\n        self.__read_only = True", "        await self._connection.message_broker.ack(self._key)\n")]},
    {"name": "c16-force-retry-category-guard-dropped", "checks": ["C16"],
     "edits": [(MS, '        if self._category != MessageCategory.NORMAL:\n            raise ValueError(f"Can not force retry message with category {self._category}.")\n', '')]},
    {"name": "c16-nack-category-guard-dropped", "checks": ["C16"],
     "edits": [(MS, '        if self._category != MessageCategory.NORMAL:\n            raise ValueError(f"Can not nack message with category {self._category}.")\n', '')]},
    {"name": "c16-retry-budget-guard-off-by-one", "checks": ["C16"],
     "edits": [(MS, "        if self.parameters.retries.already_tried >= self.parameters.retries.max_amount:", "        if self.parameters.retries.already_tried > self.parameters.retries.max_amount:")]},
    {"name": "c16-lazy-result-callback-at-end", "checks": ["C16"],
     "edits": [(MD, "    async def __execute_callbacks(self) -> None:\n        self.__lazy_result_callback()", "    async def __execute_callbacks(self) -> None:\n        cb = self.__lazy_result_callback\n        if hasattr(cb, 'args'):\n            cb = partial(self._callbacks.append, cb.args[1])\n        cb()")]},
    {"name": "c16-reject-does-not-consume-handle", "checks": ["C16"],
     "edits": [(MS, "        await self._connection.message_broker.reject(self._key)\n\n        self.__read_only = True", "        await self._connection.message_broker.reject(self._key)\n")]},
    {"name": "c16-callbacks-run-in-reverse", "checks": ["C16"],
     "edits": [(MD, "        [await c() for c in self._callbacks]  # execute in order", "        [await c() for c in reversed(self._callbacks)]  # execute in order")]},
    {"name": "c16-retry-default-delay-not-zero", "checks": ["C16"],
     "edits": [(MS, "    async def retry(self, next_retry: timedelta | None = None) -> None:\n        if self._category != MessageCategory.NORMAL:\n            raise ValueError(f\"Can not retry message with category {self._category}.\")\n\n        if self.__read_only:\n            raise ValueError(\"Message is read only.\")\n\n        if self.parameters.retries.already_tried >= self.parameters.retries.max_amount:\n            raise ValueError(\"Max retry limit reached.\")\n\n        await self._connection.message_broker.requeue(\n            self._key,\n            self.raw_payload,\n            self.parameters._prepare_retry(\n                next_retry=timedelta(seconds=0) if next_retry is None else next_retry,",
                    "    async def retry(self, next_retry: timedelta | None = None) -> None:\n        if self._category != MessageCategory.NORMAL:\n            raise ValueError(f\"Can not retry message with category {self._category}.\")\n\n        if self.__read_only:\n            raise ValueError(\"Message is read only.\")\n\n        if self.parameters.retries.already_tried >= self.parameters.retries.max_amount:\n            raise ValueError(\"Max retry limit reached.\")\n\n        await self._connection.message_broker.requeue(\n            self._key,\n            self.raw_payload,\n            self.parameters._prepare_retry(\n                next_retry=timedelta(seconds=1) if next_retry is None else next_retry,")]},
]
MW = "repid/middlewares/wrapper.py"
MM = "repid/middlewares/middleware.py"
MUTANTS += [
    {"name": "c17-after-signal-in-finally", "checks": ["C17"],
     "edits": [(MW, "        result = await create_task(self.call_set_context(*args, **kwargs))\n        # whatever the function returns can be seen as `result` kwarg in `after` signal\n        signal_kwargs.update({\"result\": result})\n\n        # emit `after` signal\n        await self._repid_signal_emitter(f\"after_{self.name}\", signal_kwargs)\n\n        return result",
                    "        result = None\n        try:\n            result = await create_task(self.call_set_context(*args, **kwargs))\n        finally:\n            signal_kwargs.update({\"result\": result})\n            await self._repid_signal_emitter(f\"after_{self.name}\", signal_kwargs)\n\n        return result")]},
    {"name": "c17-inside-flag-not-set", "checks": ["C17"],
     "edits": [(MW, "        IsInsideMiddleware.set(True)  # noqa: FBT003\n", "")]},
    {"name": "c17-subscriber-exception-propagates", "checks": ["C17"],
     "edits": [(MM, "            except Exception:  # noqa: BLE001\n                logger.exception(\n                    \"Subscriber '{fn_name}' ({fn}) raised an exception.\",\n                    extra=logger_extra,\n                )", "            except Exception:  # noqa: BLE001\n                raise")]},
    {"name": "c17-positional-args-misnamed", "checks": ["C17"],
     "edits": [(MW, "        signal_kwargs.update(zip(self.parameters, args))", "        signal_kwargs.update(zip(list(self.parameters)[1:], args))")]},
    {"name": "c17-before-signal-after-call", "checks": ["C17"],
     "edits": [(MW, "        # emit `before` signal\n        await self._repid_signal_emitter(f\"before_{self.name}\", signal_kwargs)\n\n        # run function inside of a separate context created by `asyncio.create_task()`\n        # inside of this context IsInsideMiddleware variable will be set to True\n        result = await create_task(self.call_set_context(*args, **kwargs))",
                    "        # run function inside of a separate context created by `asyncio.create_task()`\n        # inside of this context IsInsideMiddleware variable will be set to True\n        result = await create_task(self.call_set_context(*args, **kwargs))\n        await self._repid_signal_emitter(f\"before_{self.name}\", signal_kwargs)")]},
    {"name": "c17-actor-run-wrapper-shared", "checks": ["C17"],
     "edits": [(P, "        self.actor_run = middleware_wrapper(self._actor_run, name=\"actor_run\")\n", "        cls = type(self)\n        if not hasattr(cls, '_shared'):\n            cls._shared = middleware_wrapper(self._actor_run, name=\"actor_run\")\n        self.actor_run = cls._shared\n")]},
    {"name": "c17-after-signal-without-result", "checks": ["C17"],
     "edits": [(MW, "        signal_kwargs.update({\"result\": result})\n", "")]},
]
RT = "repid/router.py"
MUTANTS += [
    {"name": "c11-actor-lookup-by-queue", "checks": ["C11"],
     "edits": [(R, "            actor = actors[key.topic]", "            actor = next((a for a in actors.values() if a.queue == key.queue), None) or actors[key.topic]")]},
    {"name": "c11-mem-filter-drops-foreign", "checks": ["C11"],
     "edits": [(MC, "        if self.topics and msg.key.topic not in self.topics:  # topics don't match\n            self._queue.simple.put_nowait(msg)\n            return None", "        if self.topics and msg.key.topic not in self.topics:  # topics don't match\n            return None")]},
    {"name": "c11-router-stale-topic-kept", "checks": ["C11"],
     "edits": [(RT, "            self.topics_by_queue[previous.queue].discard(actor.name)\n", "")]},
    {"name": "c11-include-router-first-wins", "checks": ["C11"],
     "edits": [(RT, "        for actor in router.actors.values():\n            self._register(actor)", "        for actor in router.actors.values():\n            if actor.name not in self.actors:\n                self._register(actor)")]},
    {"name": "c11-amqp-foreign-acked", "checks": ["C11"],
     "edits": [(AC, "            await asyncio.sleep(0.1)  # poison message fix\n            await self.broker._channel.basic_reject(message.delivery_tag)\n            logger.debug(\n                \"Unknown message's topic.", "            await asyncio.sleep(0.1)  # poison message fix\n            await self.broker._channel.basic_ack(message.delivery_tag)\n            logger.debug(\n                \"Unknown message's topic.")]},
    {"name": "c11-worker-consumes-without-topic-filter", "checks": ["C11"],
     "edits": [(R, "        consumer = self._conn.message_broker.get_consumer(\n            queue_name,\n            topics,", "        consumer = self._conn.message_broker.get_consumer(\n            queue_name,\n            None,")]},
]
HC = "repid/health_check_server.py"
MUTANTS += [
    {"name": "c20-path-startswith", "checks": ["C20"],
     "edits": [(HC, '        if method == "GET" and path == self.endpoint_name:', '        if method == "GET" and path.startswith(self.endpoint_name):')]},
    {"name": "c20-status-captured-at-start", "checks": ["C20"],
     "edits": [(HC, "                    get_status=lambda: self.health_status,", "                    get_status=(lambda s=self.health_status: s),")]},
    {"name": "c20-method-not-checked", "checks": ["C20"],
     "edits": [(HC, '        if method == "GET" and path == self.endpoint_name:', '        if path == self.endpoint_name:')]},
    {"name": "c20-content-length-wrong", "checks": ["C20"],
     "edits": [(HC, '            f"Content-Length: {len(content)}\\r\\n"', '            f"Content-Length: {len(content) + 2}\\r\\n"')]},
    {"name": "c20-server-not-stopped", "checks": ["C20"],
     "edits": [("repid/worker.py", "            await asyncio.wait_for(\n                self.health_check_server.stop(),\n                timeout=self.graceful_health_check_server_finish_time,\n            )", "            pass")]},
    {"name": "c20-decode-error-as-base-exception", "checks": ["C20"],
     "edits": [(HC, "        message = data.decode()\n", "        try:\n            message = data.decode()\n        except UnicodeDecodeError:\n            raise SystemExit(1)\n")]},
    {"name": "c20-unhealthy-never-set", "checks": ["C20"],
     "edits": [(R, "                self._health_check_server.health_status = HealthCheckStatus.UNHEALTHY", "                pass")]},
    {"name": "c20-malformed-flips-status", "checks": ["C20"],
     "edits": [(HC, "        headers, _ = message.split(\"\\r\\n\\r\\n\", maxsplit=1)\n", "        try:\n            headers, _ = message.split(\"\\r\\n\\r\\n\", maxsplit=1)\n        except ValueError:\n            self.endpoint_name = '/broken'\n            type(self).endpoint_override = '/broken'\n            raise\n"),
               (HC, "        self.endpoint_name = endpoint_name\n        # the status", "        self.endpoint_name = getattr(type(self), 'endpoint_override', endpoint_name)\n        # the status")]},
]
MUTANTS += [
    {"name": "c03-reporting-cancelled-and-rejected", "checks": ["C03"],
     "edits": [(R, "            if key.id_ in self._reporting:", "            if False:")]},
    {"name": "c03-finish-gracefully-does-not-wait", "checks": ["C03"],
     "edits": [(R, "            await asyncio.wait(set(self._tasks))\n", "            pass\n")]},
    {"name": "c03-redis-fetch-not-shielded", "checks": ["C03", "C10"],
     "edits": [(RC, "                msg = await asyncio.shield(fetch)\n            except asyncio.CancelledError:\n                if (msg := await fetch) is not None:\n                    await self.broker.reject(msg[0])\n                raise", "                msg = await fetch\n            except asyncio.CancelledError:\n                raise")]},
    {"name": "c03-redis-finish-skips-unsettled", "checks": ["C03", "C10"],
     "edits": [(RC, "            if consumer is self:\n                rejects.append(self.broker.reject(key))", "            if False:\n                rejects.append(self.broker.reject(key))")]},
    {"name": "c03-amqp-finish-skips-unsettled", "checks": ["C03", "C10"],
     "edits": [(AC, "            if self.broker._id_to_delivery_tag.get(id_) == tag:\n", "            if False:\n")]},
    {"name": "c03-mem-finish-returns-nothing", "checks": ["C03"],
     "edits": [(MC, "            if taken is not None and taken[2] is self:", "            if False:")]},
    {"name": "c03-redis-maintenance-ignores-timeout", "checks": ["C03"],
     "edits": [(RB, "                    > params.execution_timeout\n", "                    > params.execution_timeout * 0\n")]},
    {"name": "c03-redis-maintenance-never-rejects", "checks": ["C03"],
     "edits": [(RB, "                    > params.execution_timeout\n", "                    > params.execution_timeout * 1000\n")]},
    {"name": "c03-redis-reject-of-settled-resurrects", "checks": ["C03"],
     "edits": [(RB, "        if raw_params[1] is None:\n            # the message is not marked as taken (e.g. it has been acked or requeued already),\n            # there is nothing to give back - pushing its name again would duplicate or resurrect it\n            return\n\n        reject_to = raw_params[1].decode()", "        reject_to = raw_params[1].decode() if raw_params[1] is not None else \"n\"")]},
    {"name": "c03-graceful-period-ignored-both-paths", "checks": ["C03"],
     "edits": [("repid/worker.py", "        await runner.finish_gracefully(timeout=self.graceful_shutdown_time)", "        await runner.finish_gracefully(timeout=self.graceful_shutdown_time + 30)"),
               (R, "        self.stop_consume_event.set()\n        await asyncio.sleep(wait_for)\n        self.cancel_event.set()", "        self.stop_consume_event.set()\n        await asyncio.sleep(wait_for + 30)\n        self.cancel_event.set()")]},
]
# dimensions found thin by the seeded rounds (DESIGN §14): durations of a day and more
MUTANTS += [
    {"name": "c12-ttl-seconds-component-only", "checks": ["C12"],
     "edits": [(PA, "        return datetime.now(tz=self.timestamp.tzinfo) > self.timestamp + self.ttl",
                    "        return datetime.now(tz=self.timestamp.tzinfo) > self.timestamp + timedelta(seconds=self.ttl.seconds, microseconds=self.ttl.microseconds)")]},
]
MUTANTS += [
    {"name": "c20-idle-worker-leaves-server-open", "checks": ["C20"],
     "edits": [("repid/worker.py", "            if self.health_check_server is not None:  # pragma: no cover\n                await self.health_check_server.stop()\n            return runner",
                                    "            return runner")]},
]
# host dimensions added after seeding round 7 (DESIGN §14): time zone, logger level, priorities, names, router defaults
RU = "repid/connections/redis/utils.py"
MUTANTS += [
    {"name": "c05-redis-score-naive-as-utc", "checks": ["C05", "C04"],
     "edits": [(RU, "        return math.ceil(params.delay.next_execution_time.timestamp())",
                    "        return math.ceil(params.delay.next_execution_time.replace(tzinfo=__import__('datetime').timezone.utc).timestamp())")]},
    {"name": "c14-redis-maintenance-utcnow", "checks": ["C14"],
     "edits": [(RB, "        now = datetime.now()\n        tasks: list[asyncio.Task] = []", "        now = datetime.utcnow()\n        tasks: list[asyncio.Task] = []")]},
    {"name": "c02-debug-line-bad-placeholder", "checks": ["C02"],
     "edits": [(P, "            \"Running actor '{actor_name}' on message {message_id} with time limit {time_limit}.\",",
                   "            \"Running actor '{actor_name}' on message {message_id} with time limit {limit}.\",")]},
    {"name": "c03-redis-reject-default-priority", "checks": ["C10", "C03"],
     "edits": [(RB, "                pipe.rpush(qnc(key.queue, key.priority), mnc(key, short=True))", "                pipe.rpush(qnc(key.queue), mnc(key, short=True))")]},
    {"name": "c11-router-default-queue-ignored", "checks": ["C11"],
     "edits": [("repid/router.py", "            queue=queue or self.defaults.queue,", "            queue=queue or \"default\",")]},
    {"name": "c13-result-timestamp-utc", "checks": ["C13"],
     "edits": [(P, "                exception=None,\n                timestamp=datetime.now(),", "                exception=None,\n                timestamp=datetime.utcnow(),")]},
]
# dimensions added after seeding round 8: one-shot faults, queue inspection, connect twice
MUTANTS += [
    {"name": "c16-ack-flag-before-broker-call", "checks": ["C16"],
     "edits": [("repid/message.py", "        await self._connection.message_broker.ack(self._key)\n\n        self.__read_only = True",
                                    "        self.__read_only = True\n        await self._connection.message_broker.ack(self._key)")]},
    {"name": "c07-bucket-lookup-error-ignored", "checks": ["C07"],
     "edits": [(P, "            bucket = await self._conn._ab.get_bucket(\n                _ArgsBucketInMessageId.deconstruct(initial_payload),\n            )\n",
                   "            try:\n                bucket = await self._conn._ab.get_bucket(\n                    _ArgsBucketInMessageId.deconstruct(initial_payload),\n                )\n            except Exception:  # noqa: BLE001\n                bucket = None\n")]},
    {"name": "c19-overdue-from-delay-until", "checks": ["C19"],
     "edits": [(PA, "        return datetime.now(tz=self.timestamp.tzinfo) > self.timestamp + self.ttl",
                    "        return datetime.now(tz=self.timestamp.tzinfo) > max(self.timestamp, self.delay.delay_until or self.timestamp) + self.ttl")]},
]
