"""Kill lists (DESIGN.md §4 per property, §6).  Each mutant: name, edits [(file, old, new)], checks that must kill it."""
P = "repid/_processor.py"
MUTANTS = [
    {"name": "c02-retry-boundary-le", "checks": ["C02", "C04"],
     "edits": [(P, "parameters.retries.already_tried < parameters.retries.max_amount", "parameters.retries.already_tried <= parameters.retries.max_amount")]},
    {"name": "c02-swap-ack-nack", "checks": ["C02"],
     "edits": [(P, "        elif result.success:\n            await self._conn.message_broker.ack(key)\n        # nack\n        else:\n            await self._conn.message_broker.nack(key)",
                   "        elif not result.success:\n            await self._conn.message_broker.ack(key)\n        # nack\n        else:\n            await self._conn.message_broker.nack(key)")]},
    {"name": "c02-drop-reporting-done-return", "checks": ["C02"],
     "edits": [(P, "            self._processed += 1\n            return\n", "            self._processed += 1\n")]},
    {"name": "c02-noaction-as-failure", "checks": ["C02"],
     "edits": [(P, "                reporting_done=True,", "                reporting_done=False,")]},
]
