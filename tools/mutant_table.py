"""Kill lists (DESIGN.md §4 per property, §6).  Each mutant: name, edits [(file, old, new)], checks that must kill it."""
P = "repid/_processor.py"
MUTANTS = [
    {"name": "c02-retry-boundary-le", "checks": ["C02", "C04"],
     "edits": [(P, "parameters.retries.already_tried < parameters.retries.max_amount", "parameters.retries.already_tried <= parameters.retries.max_amount")]},
    {"name": "c02-swap-ack-nack", "checks": ["C02"],
     "edits": [(P, "        elif result.success:\n            await self._conn.message_broker.ack(key)\n        # nack\n        else:\n            await self._conn.message_broker.nack(key)",
                   "        elif not result.success:\n            await self._conn.message_broker.ack(key)\n        # nack\n        else:\n            await self._conn.message_broker.nack(key)")]},
    {"name": "c02-drop-reporting-done-return", "checks": ["C02"],
     "edits": [(P, "            self._processed += 1\n            return\n", "            self._processed += 1\n")]},
    {"name": "c02-noaction-as-failure", "checks": ["C02"],
     "edits": [(P, "                reporting_done=True,", "                reporting_done=False,")]},
]
PA = "repid/data/_parameters.py"
MUTANTS += [
    {"name": "c04-tried-plus-2", "checks": ["C04"],
     "edits": [(PA, 'object.__setattr__(copy.retries, "already_tried", copy.retries.already_tried + 1)', 'object.__setattr__(copy.retries, "already_tried", copy.retries.already_tried + 2)')]},
    {"name": "c04-policy-arg-off-by-one", "checks": ["C04"],
     "edits": [(P, "parameters._prepare_retry(actor.retry_policy(parameters.retries.already_tried + 1))", "parameters._prepare_retry(actor.retry_policy(max(parameters.retries.already_tried, 1)))")]},
    {"name": "c04-retry-forgets-delay", "checks": ["C04"],
     "edits": [(PA, '            datetime.now() + next_retry,\n', '            datetime.now(),\n')]},
    {"name": "c04-redis-delay-floor", "checks": ["C04", "C05"],
     "edits": [("repid/connections/redis/utils.py", "        return math.ceil(params.delay.next_execution_time.timestamp())", "        return int(params.delay.next_execution_time.timestamp())")]},
]
R = "repid/_runner.py"
MUTANTS += [
    {"name": "c10-revert-started-limit", "checks": ["C10"],
     "edits": [(R, "            if self._tasks_started >= self.max_tasks:\n                break  # never start more than max_tasks executions\n", ""),
               (R, "            if self._tasks_started >= self.max_tasks:\n                # the limit was reached", "            if False:\n                # the limit was reached")]},
    {"name": "c10-limit-off-by-one", "checks": ["C10"],
     "edits": [(R, "            if self._tasks_started >= self.max_tasks:\n                break  # never", "            if self._tasks_started > self.max_tasks:\n                break  # never"),
               (R, "            if self._tasks_started >= self.max_tasks:\n                # the limit was reached", "            if self._tasks_started > self.max_tasks:\n                # the limit was reached")]},
    {"name": "c10-stop-event-never-set", "checks": ["C10"],
     "edits": [(R, "        if self.max_tasks_hit:\n            self.stop_consume_event.set()", "        if self.max_tasks_hit:\n            pass")]},
    {"name": "c10-no-handback-on-cancel", "checks": ["C10", "C03"],
     "edits": [(R, "                # consumption was stopped while this message waited for a free slot: hand it back\n                await self._hand_back(key)\n                raise", "                raise")]},
]
