NOTES = ("All checks: /venv/bin/python -m harness.run <ID> --tier quick|thorough; seeds from VERIF_SEED "
         "(Hypothesis seed = VERIF_SEED*1000+shard, 16 shards); exit 0 held / 1 violation / 2 harness error. "
         "REPID_SRC (default /repo) selects the source tree under test.")
NOT_APPLICABLE = {}
_MODEL = ("Trusted base: harness/vclock.py (virtual clock; datetime/time rebound inside repid.* modules), Hypothesis 6.168, "
          "the oracle code in harness/checks. Host dimensions are generated per case: time zone (UTC, fixed offsets, zones on daylight-saving time), "
          "level of the 'repid' logger (default / DEBUG), message priorities, legal but unusual queue / actor / message names.")
_SRV = (" Redis and RabbitMQ are in-process server models (harness/fredis.py, harness/famqp.py) written from the public "
        "command / protocol documentation; redis-py and aiormq wire encoding below the client API is not exercised.")
_WORKER = ("Generated worker scenarios run by a real repid Worker on a deterministic virtual-time event loop against an independent "
           "reference model; statistical coverage (no exhaustiveness claimed), sensitivity shown by the mutants in tools/mutant_table.py.")
CHECKS = [
 {"property_id": "C20", "level": "exploration", "design_ref": "DESIGN.md §4 C20",
  "technique": "grammar-based and mutation fuzzing of the HTTP protocol object (Hypothesis; atheris/libFuzzer coverage-guided campaign in the thorough tier) plus socket-level stateful property-based testing on a real loop",
  "text": "Protocol layer: generated and mutated byte strings in 1-5 chunks against a response-wellformedness / status oracle (tens of thousands "
          "of inputs per quick run, millions of libFuzzer executions in the thorough run, seeded and empty corpus). Socket layer: a real "
          "Worker with the health server on a loopback port; histories of probes, malformed sends, early-opened connections, concurrent "
          "bursts, bursts of 130-300 connections that send nothing, a connection left idle until the worker stops, a consumer failure (in-memory, or a RabbitMQ server-side cancel "
          "whose restart is refused), a worker without actors, jobs and probes during a slow graceful shutdown; oracle 200/503/404 as of the moment the request is "
          "sent, port open exactly while run() runs, jobs undisturbed. Protocol layer also: request targets of 12-5000 characters and a "
          "CPU-time budget (2 s of process CPU time per request, the computation is interrupted): data_received must not block the loop; the health status may turn 503 between two chunks of a request - an answer tells the status in force when it was written.",
  "note": "Trusted base: Hypothesis, atheris 3.1 (bytecode instrumentation of the protocol methods), the oracle in harness/checks/c20.py. Socket "
          "layer uses real time and loopback sockets; client-side timeouts are counted inconclusive."},
 {"property_id": "C01", "level": "fault_enumeration", "design_ref": "DESIGN.md §4 C01",
  "technique": "model-based stateful property-based testing of broker-API histories with step-indexed cancellation injection, 3 brokers",
  "text": "Generated histories (enqueue/start/consume/ack/nack/reject/requeue/finish/advance, any call cancellable after k loop steps) are "
          "executed against the real broker classes and a lifecycle reference model; broker-side state is probed after every operation "
          "(conservation: exactly one place per live message; cancelled calls leave the pre- or post-state). Cancellation points are "
          "loop-step indices on a deterministic loop, so a failing interleaving replays exactly. Statistical over histories; the thorough "
          "tier additionally enumerates every cancellation step of every terminal call over a pool of pre-states (cancel-* sub-checks; sampled in "
          "quick). 'launch'/'collect' rounds keep several consume calls of different clients in flight at once under unequal simulated "
          "latencies; consumers are paused and resumed (or finished while paused) in between; a connected broker is connected again (idempotent); some messages carry a time-to-live that runs out while they wait or are held. long-lived-*: a consumer works through 60-1040 messages beside a "
          "message it once took and returned and that another consumer of the same process now holds, then finishes. A directed block puts "
          "several delayed messages on one due instant and consumes them one by one.",
  "note": _MODEL + _SRV + " One open known finding (D9: RabbitMQ requeue is ack+publish, not atomic) is excluded by signature."},
 {"property_id": "C02", "level": "exploration", "design_ref": "DESIGN.md §4 C02",
  "technique": "scenario property-based testing (Hypothesis) with scripted actors against a decision-table reference model, 3 brokers",
  "text": _WORKER + " Oracle = exact expected sequence of terminal broker calls per delivery (op, retry counter), body execution counts, "
          "never-after-eager marker, final place, worker survival. Outcomes include exceptions whose __str__ raises, return values that cannot "
          "be serialised, and a worker connection without a results bucket broker, and eager responses given by a dependency. sync-burst: 33-70 sync "
          "actors started at once meet at a barrier (each delivery is judged on its own however many threads are busy). The final place of a "
          "finished chain is judged even when the scenario ran into the horizon; a worker that holds a message and does nothing for 8 s has left the delivery without its terminal action.",
  "note": _MODEL + _SRV},
 {"property_id": "C03", "level": "fault_enumeration", "design_ref": "DESIGN.md §4 C03",
  "technique": "step-indexed fault injection on a deterministic event loop (stop signal / process death at loop step k; Hypothesis-drawn k in quick, every k enumerated in thorough) with a replay-of-completed-calls oracle, 3 brokers",
  "text": "Crash points are integer event-loop steps, obtained from a dry run of each pooled workload; the worker's own signal handler (or the "
          "death of its client) is injected at step k. After run() returns and the loop is idle each message must be, consistently with the "
          "terminal calls that completed, absent / dead / queued exactly once with its retry counter unchanged; Redis recovery is checked "
          "against take-time + execution timeout with maintenance runs before and after. The thorough tier is exhaustive over all steps of "
          "the pooled scenarios (not over all workloads); stop-random-* additionally injects into freshly generated workloads, aimed near "
          "broker events of a dry run; kill-* mixes execution timeouts (seconds to days) and runs maintenance at every deadline; limit-multi generates workloads "
          "over 2-3 queues with a message limit, microsecond-grid durations and an optional stop signal, so a message of another queue "
          "is handed back exactly while the last counted execution ends. A reject that follows an interrupted ack is judged per alternative "
          "(ack took effect / did not). Pool scenarios include an eager first delivery followed by a 15 s second delivery of the same message.",
  "note": _MODEL + _SRV + " asyncio has no preemption inside a loop step, so loop steps are the complete set of interleaving points for one process."},
 {"property_id": "C04", "level": "exploration", "design_ref": "DESIGN.md §4 C04",
  "technique": "scenario property-based testing of retry chains against a retry-ladder model plus parameter-level checks of _prepare_retry",
  "text": _WORKER + " Oracle = executions per scheduling, counter seen per attempt, already_tried+1<=N, next_execution_time==now+policy(k) to "
          "the microsecond, next attempt not before failure+policy(k)-1ms, end state. large-* sub-checks use back-offs of days to weeks; attempts may answer with an eager retry / forced retry.",
  "note": _MODEL + _SRV},
 {"property_id": "C05", "level": "exploration", "design_ref": "DESIGN.md §4 C05",
  "technique": "property-based testing of broker-level delivery timing on a virtual clock (due times at generated sub-second phases) with early/late/visibility oracles, 3 brokers",
  "text": "Generated due times (past, sub-second, seconds, far future; arbitrary microsecond phase of both `now` and T), delay forms "
          "(next_execution_time, delay_until, Job.deferred_until), arrival vs consumer-start interleavings; a consumer consumes continuously "
          "for a 40 s virtual horizon. Oracles: never handed to a NORMAL consumer before T-1ms; delivered within a per-broker bound after T; "
          "far-future messages stay delayed; visible through the DELAYED category only, reject keeps them delayed. 'never forgotten' is decided "
          "as 'within the stated bound'. Also: Job.deferred_by forms, a topic-filtered consumer beside a run of foreign delayed messages, non-UTC host zones (fixed and on daylight-saving time), messages carrying both a period and a retry time, messages the consumer itself puts back with a retry time (requeue).",
  "note": _MODEL + _SRV + " Open known findings D19a/D19b (RabbitMQ head-of-line blocking of per-message TTL) are excluded by signature."},
 {"property_id": "C06", "level": "exploration", "design_ref": "DESIGN.md §4 C06",
  "technique": "property-based testing of reschedule arithmetic over generated iteration programmes (pinned clock) plus worker-level recurring scenarios on 3 brokers",
  "text": _WORKER + " Parameter-level layer drives the real _prepare_retry/_prepare_reschedule through 2-10 iterations with generated "
          "latency/duration profiles; oracle = one successor, counter reset, TTL restarted, now<S_next<=now+p, S_next>=S_prev+p. "
          "amqp-long-period runs periods of 1-30 days through the RabbitMQ model. fleet-* serve 1-3 recurring jobs on one time base with "
          "2-3 workers of their own connections that are stopped and replaced while the others run: every slot runs exactly once (twins of one "
          "job, a timestamp equal to now, cadence grids, short ttl, non-UTC host zones included). A reader of the DELAYED category may take the "
          "pending iteration before it is due and hand it back: its slot stays its slot.",
  "note": _MODEL + _SRV + " cron schedules are not exercised (croniter not installed)."},
 {"property_id": "C07", "level": "exploration", "design_ref": "DESIGN.md §4 C07",
  "technique": "round-trip and injectivity property-based testing of codecs and key encodings, plus end-to-end producer->broker->consumer->actor identity checks on 3 brokers",
  "text": "Names and ids are drawn from the alphabets the validators of the tree under test accept (computed from VALID_NAME / VALID_ID). "
          "decode(encode(x))==x over generated field combinations at the documented limits (100-year durations at microsecond precision, "
          "tz-aware timestamps); Redis/AMQP name encodings round-trip and are injective over near-miss key pairs; end to end the consumed "
          "key/priority/payload/parameters equal what Job.enqueue() returned and the configured settings, and the actor's arguments equal an "
          "independent JSON normalisation (inline and bucket transport); a requeue with a new payload, a second job re-using the args_id "
          "over another connection, a worker that is already consuming while the producer's bucket store is slow, and a worker whose first look-up of the "
          "argument bucket fails (the actor is called with the job's arguments or not at all); routing keys with priorities outside the three named levels through the broker API.",
  "note": _MODEL + _SRV},
 {"property_id": "C08", "level": "exploration", "design_ref": "DESIGN.md §4 C08",
  "technique": "property-based testing over generated actor signatures (exec-ed source, real CPython binding) and payloads against an independent binder; converter differential; output round trip",
  "text": "Signatures x payload shapes (empty, exact, missing, extras, permuted) are bound by an independent reference binder and compared with "
          "what the generated function actually receives through convert_inputs and through a Worker; Basic vs Pydantic vs default-selection "
          "differential on typed payloads; json.loads(convert_outputs(v))==v for values of the return annotation. Every payload is executed "
          "twice on one converter by an actor that mutates its arguments: the second binding must not see the first one's mutations. Declared defaults need not satisfy their annotation (None, (), '').",
  "note": _MODEL + " Pydantic 2 installed; *args/**kwargs only under BasicConverter (documented as unsupported by PydanticConverter)."},
 {"property_id": "C09", "level": "exploration", "design_ref": "DESIGN.md §4 C09",
  "technique": "scenario property-based testing with an in-body concurrency counter and a bounded-latency progress oracle, 3 brokers",
  "text": _WORKER + " Safety oracle: bodies in progress <= tasks_limit at every instant. Progress oracle: no free slot + deliverable message "
          "without a start for longer than a per-broker pickup allowance; all jobs start within a stated bound ('eventually' = within the bound). "
          "Timed-out bodies may keep running a cleanup; sync-timeout times out sync actors whose threads outlive the timeout; jobs with a ttl; "
          "deferred jobs, one of which a reader of the DELAYED category holds across its due time.",
  "note": _MODEL + _SRV},
 {"property_id": "C11", "level": "exploration", "design_ref": "DESIGN.md §4 C11",
  "technique": "property-based testing over generated router/worker/job configurations against a last-registration-wins routing model, 3 brokers, 1-2 workers",
  "text": "Routers, overrides, inclusion orders, worker subsets and job (name, queue) pairs are generated (names prefix-related on purpose); the "
          "model says which registration, if any, must run each job exactly once; every other message must stay waiting, unchanged and "
          "consumable by a later consumer of its topic; own jobs must finish within a bound; the worker's actor table must equal the "
          "last-wins union. Registrations with or without explicit queue / name (router defaults), routers handed over, included later or through an intermediate router; an already-expired message somewhere in the traffic.",
  "note": _MODEL + _SRV + " Open known finding D20b (RabbitMQ topic filtering by reject+requeue can block/ping-pong) is excluded by signature."},
 {"property_id": "C12", "level": "exploration", "design_ref": "DESIGN.md §4 C12",
  "technique": "property-based testing of time-to-live boundaries on a virtual clock (delivery instant = expiry + generated epsilon, exact 0 included), broker and worker level, 3 brokers",
  "text": "Generated ttl/age/kind (immediate, delayed before/after expiry, retried, rescheduled, no ttl) with the consume (or worker start) "
          "instant placed at expiry+eps; oracle: after expiry never handed over / executed, dead-lettered and retrievable from the DEAD category "
          "with identical content; before expiry delivered and never dead-lettered; cases inside the latency slack band counted unconstrained; "
          "a broker spinning on an expiring message (step watchdog) is reported; 1-4 adjacent copies of the expiring message; time-to-live values from seconds to 400 days (scheduled long ago). idle-*: the consumer has been polling an empty queue for "
          "0.05-3.5 s when a message arrives that expired 1 ms - 1.5 s earlier (or is clearly alive). ttl of 0, 1 µs and 0.5 s and non-UTC host zones are drawn; "
          "a rescheduled message expires at reschedule time + ttl. saturated-*: the worker is at its tasks_limit when a short-lived message arrives (possibly into a "
          "paused consumer's prefetch window); the instant the consumer hands it to the worker is observed - after the expiry is an expired delivery.",
  "note": _MODEL + _SRV},
 {"property_id": "C13", "level": "exploration", "design_ref": "DESIGN.md §4 C13",
  "technique": "scenario property-based testing of stored results against the model's latest-execution outcome, plus fault-injection differential on store_bucket",
  "text": _WORKER + " Fault sub-check makes the k-th result store_bucket call raise and requires dispositions and final places to equal "
          "the fault-free run of the same generated scenario. The stop sub-check injects the stop signal at loop steps around the result "
          "store of a dry run (every step in the thorough tier): a job whose disposition was reported must have its result stored. Outcomes include eager responses given by a dependency. Job.result is read on the enqueued Job object after every execution, not only at the end. A run with a failing store that runs into the horizon while the fault-free run settled is a stalled worker.",
  "note": _MODEL + _SRV + " AMQP scenarios use in-memory bucket brokers."},
 {"property_id": "C10", "level": "exploration", "design_ref": "DESIGN.md §4 C10",
  "technique": "scenario property-based testing of messages_limit (bound, self-stop, untouched remainder) and of the run-on-enqueue testing modifier",
  "text": _WORKER + " Liveness is decided as 'returns within a 45 s virtual horizon'. Graceful-shutdown times of 0.3 / 1 s with bodies that outlast "
          "them, actors that spawn tasks, deliveries that fail outside the actor body, results without a bucket broker.",
  "note": _MODEL + _SRV},
 {"property_id": "C14", "level": "exploration", "design_ref": "DESIGN.md §4 C14",
  "technique": "stateful property-based testing with concurrent consume launches over several clients and generated latencies; holder-map oracle; multi-worker exactly-once check",
  "text": "Interleavings of several consumers/clients are permuted by generated per-round-trip latencies on a deterministic loop; the holder "
          "map is maintained from hand-over/return events and every history ends by draining all consumers. Worker level: 2-3 workers on one "
          "queue, each succeeding job executed exactly once. bulk-*: 100-300 (mostly delayed, distinct due times) messages drained by 2-3 "
          "concurrent consumers, each handed out exactly once. Redis maintenance runs under non-UTC host zones. Half of the Redis / RabbitMQ histories end with every client dying and "
          "a new one draining the queue: nothing acknowledged comes back. workers-stop-*: workers are stopped and replaced while jobs run; "
          "maintenance runs aimed at execution deadlines; pause/unpause of consumers; a single-client variant. limit-handback: a worker over several queues reaches its message limit with messages of other queues in its hands - afterwards each is in its queue exactly once. Statistical over histories and latency vectors.",
  "note": _MODEL + _SRV + " Open known finding D24 (Redis maintenance reclaims messages of live consumers after the execution timeout) is excluded by signature."},
 {"property_id": "C15", "level": "exploration", "design_ref": "DESIGN.md §4 C15",
  "technique": "model-based property-based testing of delivery order (single consumer, single priority) with drain / continuous-backlog / reject-and-reawait histories, 3 brokers",
  "text": "Order oracle over the event stream (enqueue, deliver, return): no never-returned message overtakes an earlier-enqueued waiting "
          "one; a returned message precedes everything enqueued after its return; nothing matching starves while the consumer polls; "
          "queue lengths cross Redis's fetch window of 10; a spinning broker call (step watchdog) is reported; foreign-run mode puts 10-30 "
          "foreign-topic messages ahead of own ones, with returns and a second consumer eating the run; pause mode pauses and resumes the "
          "consumer while messages (some prefetched) wait; a third of the cases mix several priority levels in the queue; message timestamps older than their enqueue instant; a returned message that carries an already-due schedule; on Redis an id enqueued again while it waits keeps its place; racing mode lets a second "
          "client change the Redis queue between the consumer's read and its transaction; bodies up to 100 kB; bulk enqueues of 60-150.",
  "note": _MODEL + _SRV + " Open known finding D20 (RabbitMQ foreign-topic head-of-line blocking under a small prefetch limit) is excluded by signature."},
 {"property_id": "C16", "level": "exploration", "design_ref": "DESIGN.md §4 C16",
  "technique": "model-based property-based testing of message-API call sequences on handles of every category and retry state; generated actor programmes for callback/result-store order",
  "text": "Per handle a small state model (usable / refused by category / refused by budget / consumed) predicts for every generated call whether "
          "it raises and which single broker call it may cause (observed at the connection boundary); actor programmes check callback order, "
          "position and value of the lazily placed result store, and that nothing runs after the eager response. dependency-eager: the eager response is given by a dependency of the actor - one "
          "terminal action, body never entered, nothing reported on top; a second action attempted in a finally block is refused. One-shot broker faults: an action whose broker call fails leaves the handle usable and its retry state unchanged. Actors may give the eager response inside their own try / except Exception.",
  "note": _MODEL + _SRV},
 {"property_id": "C17", "level": "exploration", "design_ref": "DESIGN.md §4 C17",
  "technique": "differential property-based testing: the same lifecycle script with and without generated subscriber sets (signatures, sync/async, raising), signal-log oracle, two connections",
  "text": "Every wrapped operation is exercised by a fixed lifecycle script under generated call styles and subscriber sets; the signal log "
          "must show exactly one before (seen in the pre-state) and one after iff the call returned, with the actual arguments by name and the "
          "result, nothing from nested calls and nothing to another connection's subscribers; results, exceptions and final broker state must "
          "equal the subscriber-free run. The script's actor enqueues a sentinel job from inside its body (nested operation inside actor_run). A "
          "signal-completeness probe instruments the functions under the middleware wrapper and decides nesting by dynamic extent over a "
          "task-parent map: every top-level execution of a wrapped operation - by the script, the worker or a consumer's background task - "
          "was announced; redis-background repeats that with one failing Redis round trip; slow-sync-subscribers runs bursts of 60-80 "
          "messages with a slow sync subscriber and sync actors: results equal the subscriber-free run. Raising subscribers draw their exception text (also template-like); a middleware class may be instantiated twice.",
  "note": _MODEL + _SRV},
 {"property_id": "C18", "level": "exploration", "design_ref": "DESIGN.md §4 C18",
  "technique": "property-based testing over generated dependency DAGs (exec-ed providers) against a recursive reference evaluator, with override sequences, failing providers and invalid declarations",
  "text": "Random DAGs with shared nodes, sync/async providers and message-dependency leaves are resolved by a real Worker; a 15-line recursive "
          "evaluator over the current graph gives the expected value of every dependency parameter; overrides are applied between jobs; provider "
          "failure must follow the retry ladder without running the body; unsupported declarations must raise at declaration time. Several "
          "messages are resolved concurrently through shared Depends objects whose providers suspend; alias nodes are separate Depends "
          "objects over one provider function, overridable on their own; providers may return exception objects; dependency parameters of "
          "providers may carry default values or be keyword-only; an override with a supported acyclic provider must be accepted; sync providers behind an async functools.wraps decorator.",
  "note": _MODEL + " In-memory broker only (dependency resolution is broker-independent)."},
 {"property_id": "C19", "level": "exploration", "design_ref": "DESIGN.md §4 C19",
  "technique": "property-based testing (Hypothesis) of pure functions against arithmetic oracles under a pinned clock",
  "text": "Generated search (tens of thousands of inputs per run, boundary classes constructed on purpose: exact period multiples ±1µs, "
          "now==expiry ±1µs, n above max_exponent, clipped results) against explicit arithmetic oracles. Cannot prove absence; the "
          "functions are small and pure, so boundary-directed generation is the right cost/assurance point. store-redis: buckets written through the Redis bucket broker (fresh, old timestamp, "
          "re-stored) and read around timestamp+ttl on the server model, under UTC and non-UTC host zones; expiry cases carry delay_until / defer_by / next_execution_time / retry state; next: the message may carry an off-grid next_execution_time.",
  "note": _MODEL + " max_exponent ≤ 10^4 by generator bound; cron not exercised (croniter absent)."},
]
