NOTES = ("All checks: /venv/bin/python -m harness.run <ID> --tier quick|thorough; seeds from VERIF_SEED "
         "(Hypothesis seed = VERIF_SEED*1000+shard, 16 shards); exit 0 held / 1 violation / 2 harness error. "
         "REPID_SRC (default /repo) selects the source tree under test.")
NOT_APPLICABLE = {}
_MODEL = ("Trusted base: harness/vclock.py (virtual clock; datetime/time rebound inside repid.* modules), Hypothesis 6.168, "
          "the oracle code in harness/checks, TZ=UTC.")
CHECKS = [
 {"property_id": "C19", "level": "exploration", "design_ref": "DESIGN.md §4 C19",
  "technique": "property-based testing (Hypothesis) of pure functions against arithmetic oracles under a pinned clock",
  "text": "Generated search (tens of thousands of inputs per run, boundary classes constructed on purpose: exact period multiples ±1µs, "
          "now==expiry ±1µs, n above max_exponent, clipped results) against explicit arithmetic oracles. Cannot prove absence; the "
          "functions are small and pure, so boundary-directed generation is the right cost/assurance point.",
  "note": _MODEL + " max_exponent ≤ 10^4 by generator bound; cron not exercised (croniter absent)."},
]
