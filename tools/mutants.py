#!/venv/bin/python
"""Sensitivity protocol (DESIGN.md §6): apply one small mutant at a time to a scratch copy of /repo,
run the named checks against it (REPID_SRC=<copy>), report killed / survived, delete the copy.

usage: tools/mutants.py [--tests] [--tier quick] [name-substring ...]
"""
from __future__ import annotations

import json
import os
import shutil
import subprocess
import sys
import time
from pathlib import Path

ROOT = Path(__file__).resolve().parent.parent
sys.path.insert(0, str(ROOT))
from tools.mutant_table import MUTANTS  # noqa: E402

PYTEST = ["/venv/bin/python", "-m", "pytest", "-q", "-x", "-p", "no:cacheprovider", "--timeout=900",
          "--continue-on-collection-errors", "--deselect", "tests/test_hypothesis.py::test_job_creation",
          "--ignore=tests/integration"]


def main() -> int:
    args = sys.argv[1:]
    with_tests = "--tests" in args
    tier = "quick"
    if "--tier" in args:
        tier = args[args.index("--tier") + 1]
    pats = [a for a in args if not a.startswith("--") and a != tier]
    results = []
    for m in MUTANTS:
        if pats and not any(p in m["name"] for p in pats):
            continue
        dst = Path(f"/var/tmp/repid-mut-{os.getpid()}-{m['name']}")
        if dst.exists():
            shutil.rmtree(dst)
        shutil.copytree("/repo", dst, ignore=shutil.ignore_patterns(".git", "__pycache__", ".pytest_cache", "docs", "benchmarks"))
        try:
            for (f, old, new) in m["edits"]:
                p = dst / f
                s = p.read_text()
                if s.count(old) != 1:
                    print(f"!! {m['name']}: pattern occurs {s.count(old)}x in {f}")
                    results.append({"name": m["name"], "status": "bad-pattern"})
                    raise KeyError
                p.write_text(s.replace(old, new))
            tests_ok = None
            if with_tests:
                r = subprocess.run(PYTEST, cwd=dst, capture_output=True, text=True,
                                   env={**os.environ, "PYTHONPATH": str(dst)})
                tests_ok = r.returncode == 0
                if not tests_ok:
                    print(f"   {m['name']}: repo tests FAIL on this mutant: {r.stdout.strip().splitlines()[-1:]}")
            for pid in m["checks"]:
                t0 = time.monotonic()
                env = {**os.environ, "REPID_SRC": str(dst), "VERIF_CASE_LIMIT_S": "30", "VERIF_EVIDENCE_DIR": str(ROOT / ".work" / "mut-evidence"),
                       "VERIF_REPLAY_DIR": str(ROOT / ".work" / "mut-replays")}
                cmd = ["/venv/bin/python", "-m", "harness.run", pid, "--tier", tier]
                if m.get("only"):
                    cmd += ["--only", m["only"]]
                r = subprocess.run(cmd, cwd=ROOT, env=env, capture_output=True, text=True)
                killed = r.returncode == 1 and "VIOLATION" in r.stdout
                first = next((ln for ln in r.stdout.splitlines() if ln.startswith("  [")), "")
                status = "killed" if killed else ("harness-error" if r.returncode == 2 else "SURVIVED")
                print(f"{status:14s} {m['name']:45s} {pid} {time.monotonic() - t0:5.1f}s tests_ok={tests_ok} {first[:150]}")
                if status == "harness-error":
                    print(r.stderr[-800:])
                results.append({"name": m["name"], "check": pid, "status": status, "tests_ok": tests_ok,
                                "seconds": round(time.monotonic() - t0, 1)})
        except KeyError:
            pass
        finally:
            shutil.rmtree(dst, ignore_errors=True)
    # restore evidence produced against mutants? evidence files are rewritten by every run; re-run checks afterwards.
    out = ROOT / ".work" / "mutants_last.json"
    out.parent.mkdir(exist_ok=True)
    out.write_text(json.dumps(results, indent=1))
    surv = [r for r in results if r["status"] != "killed"]
    print(f"{len(results) - len(surv)}/{len(results)} killed")
    return 0 if not surv else 1


if __name__ == "__main__":
    sys.exit(main())
