#!/bin/sh
# usage: tools/import_seed.sh C05 slug  -> seeded/C05-slug/{patch.diff,demo.py,notes.md,meta.json}
set -e
cd "$(dirname "$0")/.."
ID=$1; SLUG=$2; SRC=${3:-/tmp/seed-$ID}; D=seeded/$ID-$SLUG
mkdir -p $D
cp $SRC/patch.diff $SRC/demo.py $SRC/notes.md $D/
[ -f $D/meta.json ] || echo "{\"property\": \"$ID\", \"checks\": [\"$ID\"]}" > $D/meta.json
echo $D
