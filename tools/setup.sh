#!/bin/sh
# Offline, idempotent: make sure hypothesis is importable by /venv/bin/python.
set -e
cd "$(dirname "$0")/.."
if ! /venv/bin/python -c "import hypothesis" 2>/dev/null; then
  /venv/bin/pip install --no-index --find-links /opt/veriftools/wheels hypothesis
fi
mkdir -p .deps evidence replays .work
if ! PYTHONPATH=.deps /venv/bin/python -c "import atheris" 2>/dev/null; then
  /venv/bin/pip install --no-index --find-links /opt/veriftools/wheels --target .deps atheris >/dev/null 2>&1 || echo "atheris not installable for /venv python (optional; Hypothesis engines are used instead)"
fi
/venv/bin/python -c "import hypothesis, repid; print('setup ok: hypothesis', hypothesis.__version__)"
