#!/venv/bin/python
"""Write seeded/<round-2 / round-3 name>/meta.json from the tables below and the merged results of `tools/seeded.py`
(.work/seeded_results.json; run `tools/seeded.py --tests --demo <names>` first)."""
import json
from pathlib import Path

ROOT = Path(__file__).resolve().parent.parent
SRC = ("written by an independent sub-agent (round {r}) that saw only the property text, a description of the changes of earlier rounds "
       "and its own scratch worktree of /repo")
CONF = ("tools/seeded.py --tests --demo (patch applied to a scratch copy of /repo: the pinned test suite passes on the copy, "
        "demo.py fails with the change and passes on /repo)")

# name: (needs_to_manifest, caught_by_first_version_of_check, what was strengthened when it was missed)
T = {
    "C01-r2-redis-watch-after-read": (
        "Redis, >=2 consumers taking from the same queue concurrently with unequal per-command latencies, so that one consumer's "
        "whole take lands between the other's read and its WATCH", False,
        "C01 histories gained 'launch'/'collect' rounds: several consume calls in flight at once over connections with "
        "different simulated latencies"),
    "C02-r2-result-bucket-built-before-report": (
        "result storing requested and (a) an exception whose __str__ raises, or (b) a worker connection without a results bucket broker", False,
        "C02 generator gained BadStrError outcomes, a worker-without-results-broker variant and unserializable return values"),
    "C03-r2-redis-maintenance-breaks-early": (
        "Redis, two messages in flight, the earlier one with a long execution timeout still running, the later one of a dead worker "
        "with a shorter, elapsed timeout", False,
        "C03 kill-* scenarios now mix execution timeouts per job and run maintenance at every deadline"),
    "C04-r2-amqp-backoff-drops-days": (
        "RabbitMQ, a retry policy returning more than 24 h", False,
        "C04 gained large-* subchecks: policies with back-offs of days to weeks"),
    "C05-r2-amqp-expiration-drops-days": ("RabbitMQ, delay of at least 24 h at publish time", True, None),
    "C06-r2-amqp-expiration-drops-days": (
        "RabbitMQ, recurring job with a period longer than one day", False,
        "C06 gained amqp-long-period: periods of 1-30 days"),
    "C07-r2-duration-decode-truncates": ("wire brokers, a duration whose float*1e6 falls just below an integer (~2 % of microsecond values)", True, None),
    "C08-r2-pydantic-cached-validation": (
        "PydanticConverter, actor mutating a mutable argument in place, second execution with a byte-identical payload", False,
        "C08 direct-* subchecks execute every payload twice on one converter with a mutating actor and compare both bindings (aliasing)"),
    "C09-r2-slot-before-consume": ("worker with >=2 queues of which at least tasks_limit are idle", True, None),
    "C10-r2-redis-put-nowait-on-cancel": ("Redis, messages_limit stop with backlog >= M + tasks_limit + 1 and a slow actor", True, None),
    "C11-r2-redis-topic-regex-ungrouped": ("Redis, worker with >=2 topics on a queue and a foreign topic having one of them as a proper prefix", True, None),
    "C12-r2-redis-no-recheck-after-expired": (
        "Redis, two expired messages adjacent in one priority of one queue", False,
        "C12 ttl-* subchecks enqueue several copies of the expiring message"),
    "C13-r2-store-outside-reporting-guard": (
        "forced cancellation (graceful_shutdown_time elapsed) landing while the result is being stored, after the disposition", False,
        "C13 gained the 'stop' subcheck: stop signals aimed a few loop steps around the store of a dry run, graceful-0 scenarios "
        "weighted; thorough enumerates every step"),
    "C14-r2-redis-watch-after-pick": ("Redis, two consumers whose takes overlap within one round trip", True, None),
    "C15-r2-redis-cached-scan-position": (
        "Redis, topic-filtered consumer, >=10 foreign names at the old end of the queue, then a return or a shrinking foreign run", False,
        "C15 gained the foreign-run mode: long foreign runs (10-30) ahead of own messages, rejects and a second consumer eating the run"),
    "C16-r2-retries-left-truthiness-guard": ("already_tried strictly greater than the budget (force_retry past the budget, then retry)", True, None),
    "C17-r2-actor-run-fast-path": (
        "actor body performing a wrapped operation, a subscriber for the inner signal, no actor_run subscriber", False,
        "C17 lifecycle actor enqueues a sentinel job from inside its body; subscriber sets without actor_run signals are generated"),
    "C18-r2-shared-inflight-resolution": (
        "two messages resolved concurrently through one Depends whose provider suspends and is message dependent", False,
        "C18 resolve gained concurrent executions and providers that suspend (await / sync-in-thread)"),
    "C19-r2-bucket-overdue-drops-tz": ("tz-aware bucket timestamp with a non-UTC offset, now within |offset| of the deadline", True, None),
    "C20-r2-runner-writes-ok-back": (
        "worker with >=2 queues, one consumer failed, stop requested, probe during the graceful-shutdown window", False,
        "C20 socket scenario gained the slow_stop phase: probes between the stop signal and the end of a long-running actor"),
}


# round 3.  first = None: the gap was evident from the sub-agent's report and the generator was strengthened before the first evaluation
T3 = {
    "C01-r3-amqp-requeue-publish-before-ack": (
        "RabbitMQ, requeue without delay while a consumer of the same broker has free prefetch capacity: the new copy's delivery "
        "overwrites the id->tag entry before the ack", True, None, ["C01"]),
    "C02-r3-amqp-requeue-publish-before-ack": (
        "RabbitMQ, a retry that is due immediately (policy 0 s) and the delivery of the new copy reaching the consumer before the "
        "publisher confirm returns", False,
        "the AMQP model now lets the Basic.Deliver of a just-published message run before basic_publish returns (seeded per case); "
        "C02 judges the final place of a finished chain also when the scenario ran into its horizon", ["C02"]),
    "C03-r3-runner-handback-unshielded": (
        "worker serving >=2 queues, messages_limit reached, a message of another queue fetched meanwhile and the last counted "
        "execution ending during the round trip of its hand-back reject (Redis / RabbitMQ)", False,
        "new C03 sub-check limit-multi: 2-3 queues, messages_limit, durations on a microsecond grid, wire latencies", ["C03"]),
    "C04-r3-retries-left-truthiness-in-report": (
        "a forced retry on the attempt that used up the budget, then an ordinary failure", False,
        "C04 attempts now include eager retry / force_retry answers (they were only generated for C02, which also catches it)", ["C04", "C02"]),
    "C05-r3-redis-delayed-scan-short-page": (
        "Redis, topic-filtered NORMAL consumer, >=9 due delayed messages of other topics sorted ahead of its own", None,
        "C05 deliver-* gained a topic-filtered consumer behind 0-25 delayed messages of a foreign topic", ["C05"]),
    "C06-r3-redis-unsettled-rekeyed-requeue-missed": (
        "Redis, two workers with their own broker objects; one that has rescheduled the job before shuts down while the next "
        "iteration is in flight on the other", False,
        "new C06 sub-checks fleet-*: one recurring job, 2-3 workers with own connections, rolling stops / replacement "
        "(C01 and C14 also catch it at broker level)", ["C06", "C01", "C14"]),
    "C07-r3-redis-args-bucket-cache": (
        "Redis argument buckets, producer and consumer on separate connections, an explicit args_id re-used for a second job", None,
        "C07 e2e-* enqueue a second job over another connection, re-using the first job's args_id under bucket transport", ["C07"]),
    "C08-r3-dependency-kwargs-merged": (
        "BasicConverter, **kwargs catch-all plus a dependency parameter, payload entry named like the dependency parameter", False,
        "C08 payloads may contain an entry named like a dependency parameter (it must never replace the dependency)", ["C08"]),
    "C09-r3-timeout-without-waiting-unwind": (
        "execution timeout expiring on an actor that awaits while unwinding from the cancellation, another message waiting", False,
        "scripted actors may take time to unwind after a cancellation; C09 generates timed-out executions with 0-0.8 s cleanup", ["C09"]),
    "C10-r3-redis-fetch-holds-pause-lock": (
        "Redis, tasks_limit well below messages_limit (M >= 2*tasks_limit+3), actors slower than the fetch", True, None, ["C10"]),
    "C11-r3-mem-delayed-promotion-by-topic": (
        "in-memory, a delayed message of a topic the polling worker does not serve becoming due on a shared queue", False,
        "C11 jobs may be deferred (0.3-1.5 s); C05 and C01 catch it at broker level too", ["C11", "C05", "C01"]),
    "C12-r3-redis-overdue-dead-priority": (
        "Redis, expired message of HIGH / LOW priority, retrieval from the dead-letter category", True, None, ["C12"]),
    "C13-r3-decode-null-result-section": (
        "wire brokers, job with results disabled, worker connection with a results bucket broker", True, None, ["C13"]),
    "C14-r3-redis-maintenance-timeout-seconds": (
        "Redis, execution timeout of one day or more, maintenance while a live consumer holds the message", None,
        "C14 (and C03 kill-*) execution timeouts now include whole days; the early release is reported by the maintenance op", ["C14"]),
    "C15-r3-amqp-redelivery-backoff": (
        "RabbitMQ, a rejected message and another one enqueued within 100 ms of the return", True, None, ["C15"]),
    "C16-r3-refused-retry-keeps-claim": ("retry refused for a spent budget, then any other action on the same handle", True, None, ["C16"]),
    "C17-r3-middleware-context-leak-on-error": (
        "a wrapped operation that raises (or is timed out) in a task which then performs further wrapped operations", True, None, ["C17"]),
    "C18-r3-dependencies-cancelled-on-first-failure": (
        ">=2 top-level dependencies, a provider raising while an earlier-declared sibling is still suspended", True, None, ["C18"]),
    "C19-r3-backoff-timedelta-overflow": ("max_exponent above ~45 and a retry number that high", True, None, ["C19"]),
    "C20-r3-amqp-restart-swallowed": (
        "RabbitMQ server-side consumer cancel (queue deleted) whose immediate restart is refused; worker with further queues", False,
        "C20 socket scenarios may run on the RabbitMQ model and fail a consumer by deleting its queue server-side", ["C20"]),
}


# round 4
T4 = {
    "C01-r4-redis-requeue-routes-by-reject-mark": (
        "Redis, requeue of a message held from the DEAD category", True, None, ["C01"]),
    "C02-r4-timeout-not-waiting-eager-in-cleanup": (
        "actor exceeding its timeout that answers eagerly while being cancelled", True, None, ["C02"]),
    "C03-r4-redis-reject-marker-after-details": (
        "Redis, process death during the three round trips between the take and the payload/parameter fetch", True, None, ["C03"]),
    "C04-r4-retry-capped-at-next-occurrence": (
        "recurring job, failing attempt, back-off longer than the time to the next occurrence", True, None, ["C04"]),
    "C05-r4-redis-reject-delayed-to-normal": (
        "Redis, not-yet-due message taken through the DELAYED category and rejected", True, None, ["C05"]),
    "C06-r4-mem-requeue-same-due-setdefault": (
        "in-memory, two recurring jobs of one queue sharing a time base: the one rescheduled second for a shared slot disappears", False,
        "C06 fleet-*: 0-2 twin recurring jobs created at the same instant", ["C06"]),
    "C07-r4-redis-requeue-payload-hsetnx": (
        "Redis, requeue with a payload different from the stored one", False,
        "C07 e2e-*: the consumer requeues the held message with a new payload before the worker phase (C01 caught it as stored-payload)",
        ["C07", "C01"]),
    "C08-r4-empty-payload-skips-converter": (
        "PydanticConverter, defaults declared with pydantic.Field(...), job without arguments", False,
        "C08: Field(default=...) / Field(default_factory=...) defaults for the pydantic converter", ["C08"]),
    "C09-r4-overdue-after-slot-wait-skips-unpause": (
        "a time-to-live running out while the fetched message waits for a free slot", False,
        "C09: jobs with a 1-3 s time-to-live under saturation (expired-and-dead-lettered is not a stall)", ["C09"]),
    "C10-r4-stop-event-at-mth-start": (
        "an actor outlasting graceful_shutdown_time after the M-th execution started", False,
        "C10: graceful periods of 0.3 / 1 s. This exposed the genuine defect D31 on the unchanged tree (same symptom for M >= 2), "
        "repaired in /repo 9a2e7dd; with the repair this change no longer breaks the property (its demo passes) - retired", ["C10"]),
    "C11-r4-redis-page-filter-ends-scan": (
        "Redis, a full fetch window (10) of foreign-topic names at the old end of a shared queue", False,
        "C11: backlog of 9-25 unserved messages ahead of everything else in one queue (mem / redis)", ["C11"]),
    "C12-r4-reschedule-timestamp-at-slot": (
        "rescheduled message with a ttl shorter than the gap to its next slot", False,
        "oracle weakness, not a generator gap: C12 took the expiry of a rescheduled message from the timestamp the code produced and C06 "
        "only demanded timestamp >= now; both now demand the clock to restart exactly at the rescheduling", ["C12", "C06"]),
    "C13-r4-reschedule-drops-result-section": ("result-storing job that is rescheduled, second execution", True, None, ["C13"]),
    "C14-r4-mem-delayed-promotion-yields": (
        "in-memory, >= 100 distinct due times promoted at once while a second consumer polls", False,
        "new C14 sub-checks bulk-*: 100-300 (mostly delayed) messages drained by 2-3 concurrent consumers", ["C14"]),
    "C15-r4-redis-pause-rejects-prefetched": (
        "Redis, consumer holding >= 2 prefetched messages, pause() then unpause()", False,
        "pause / unpause operations in the broker-history interpreter; C15 pause mode (also in C01 / C14 histories)", ["C15"]),
    "C16-r4-noaction-from-dependency-not-reraised": (
        "eager response given by a dependency of the actor", False,
        "scripted provider outcome depeager (gen, model, scenario); C16 sub-check dependency-eager; C02 generates it too", ["C16", "C02"]),
    "C17-r4-redis-poller-restart-inside-middleware": (
        "Redis, background polling task crashed by a connection error and restarted from inside consume(), then an overdue message", False,
        "signal-completeness probe (harness/mwprobe.py) and C17 sub-check redis-background with a transient Redis fault", ["C17"]),
    "C18-r4-depends-eq-by-provider": (
        "two Depends objects over one provider function, same annotated type, an override on one of them", False,
        "C18 graphs may contain alias nodes: another Depends instance over an earlier node's provider", ["C18"]),
    "C19-r4-redis-bucket-px-ttl": (
        "Redis bucket stored with a timestamp older than the store call", None,
        "new C19 sub-check store-redis (bucket expiry as enforced by the Redis bucket broker); Redis model: EX / PX / PXAT", ["C19"]),
    "C20-r4-decode-errors-ignore": ("request line that becomes GET <endpoint> once invalid UTF-8 bytes are dropped", True, None, ["C20"]),
}
# round 5
T5 = {
    "C01-r5-amqp-delivered-prune-adopts-foreign-tags": (
        "RabbitMQ, two consumers on one broker object, a message that moved from A to B, more than 1000 deliveries through A, then A.finish()",
        False, "new C01 sub-checks long-lived-*: 60-1040 deliveries through a consumer beside a message held by another", ["C01"]),
    "C02-r5-sync-actors-on-default-executor": (
        "more concurrently running sync actors than the event loop's default thread pool has threads", False,
        "new C02 sub-check sync-burst: 33-70 sync actors that meet at a barrier (opt-in thread_time in the virtual loop)", ["C02"]),
    "C03-r5-redis-maintenance-timeout-seconds": ("Redis, execution timeout with a days component, maintenance", True, None, ["C03"]),
    "C04-r5-redis-requeue-same-second-shortcut": ("Redis, sub-second retry back-off not crossing a second boundary", True, None, ["C04"]),
    "C05-r5-redis-delayed-poll-once-per-second": ("Redis, several delayed messages of one priority due in the same second", True, None, ["C05"]),
    "C06-r5-overdue-failure-nacked-before-reschedule": (
        "recurring job with a ttl barely above its period, an iteration that runs past the ttl and fails with retries exhausted", False,
        "C06 recurring scenarios: ttl = period + 2.5 s with attempts of 1-4 s", ["C06"]),
    "C07-r5-job-enqueue-gathers-bucket-store": (
        "arguments through a bucket, worker already consuming, bucket store slower than the worker's lookup", False,
        "C07 e2e-*: worker-first variant with a slow producer-side bucket client", ["C07"]),
    "C08-r5-basic-defaults-shallow-copy": ("BasicConverter, two payloads of different shape through one converter", True, None, ["C08"]),
    "C09-r5-event-wakes-all-waiting-consumers": (">=2 queues whose consumers wait for a slot at the same time", True, None, ["C09"]),
    "C10-r5-testing-plugin-lock-not-reentrant": (
        "run-on-enqueue mode, actor that enqueues a follow-up job", False,
        "C10 plugin: jobs whose actor enqueues a follow-up job", ["C10"]),
    "C11-r5-amqp-giveback-skipped-after-finish": ("RabbitMQ, foreign-topic message in its 0.1 s bounce when the worker stops", True, None, ["C11"]),
    "C12-r5-mem-cached-clock-for-ttl": (
        "in-memory, consumer idle-polling for a while, message that expired less than ~1 s before it arrives", False,
        "new C12 sub-checks idle-*", ["C12"]),
    "C13-r5-mem-bucket-ttl-heap-stale-deadline": ("in-memory result bucket written twice under one id with a ttl", True, None, ["C13"]),
    "C14-r5-amqp-requeue-publish-before-ack": (
        "RabbitMQ, immediate requeue delivered to a consumer of the same broker object, later a connection loss", False,
        "C14 holders-*: restart epilogue (all clients die, a new one drains), single-process variant, more requeues "
        "(same change as C01-r3 / C02-r3, which C01 and C02 catch)", ["C14"]),
    "C15-r5-amqp-big-body-parsed-in-executor": (
        "RabbitMQ, a body of 64 KiB or more followed by small messages", False, "C15: 70-200 KB bodies", ["C15"]),
    "C16-r5-readonly-set-after-hook": (
        "a second action on the handle while the actor unwinds from its eager response (finally / except BaseException)", False,
        "scripted eager outcomes may attempt a second action in a finally block (C16 programs)", ["C16"]),
    "C17-r5-asyncify-shared-default-executor": (
        "more concurrent slow sync subscriber calls than the default thread pool has threads, sync actors with a short timeout", False,
        "new C17 sub-check slow-sync-subscribers (same change as C02-r5)", ["C17", "C02"]),
    "C18-r5-gather-return-exceptions-baseexception": (
        "a provider that settles the message itself, or a provider returning an exception object", False,
        "C18: providers may return exception objects (C16 dependency-eager / C02 catch the first half)", ["C18"]),
    "C19-r5-period-grid-anchored-at-retry-time": (
        "periodic job with retries: a retry back-off that is no multiple of the period, then the normal reschedule", False,
        "C19 next: the message may carry an off-grid next_execution_time; C06 cadence: all slots on one grid", ["C19", "C06"]),
    "C20-r5-connection-cap-leaks-on-empty-connections": (
        ">=128 connections opened and closed without a byte", False, "C20 socket: bursts of 130 / 300 silent connections", ["C20"]),
}
# round 6
T6 = {
    "C01-r6-redis-bg-put-cancel-loses-message": (
        "Redis consumer with max_unacked_messages=N, >= N+1 messages waiting, finish() while the poller is blocked on the full local queue", True, None, ["C01"]),
    "C02-r6-subdependency-noaction-as-value": (
        "eager response given by a dependency of a dependency", False,
        "scripted actor shape dep2 (provider one level down) in gen / scenario; C16 dependency-eager nested variant", ["C02", "C16"]),
    "C03-r6-health-stop-before-graceful-finish": (
        "health server running, a client connection still open when the worker stops, a message still taken", False,
        "C20 socket: idle client connection at stop + worker-died verdict. That exposed the genuine defect D32 on the unchanged tree "
        "(run() raised TimeoutError), repaired in /repo c28d5ba; with the repair the change no longer loses messages (its demo passes) - "
        "retired for C03; what remains of it (port closed during the graceful shutdown) is caught by C20", ["C03", "C20"]),
    "C04-r6-amqp-requeue-publish-before-ack": ("RabbitMQ, zero back-off retry (third independent re-invention of this change)", True, None, ["C04"]),
    "C05-r6-mem-delayed-scan-skipped-when-normal-nonempty": (
        "in-memory, topic-filtered consumer, a normal message of a foreign topic parked in the queue, a due delayed message", True, None, ["C05"]),
    "C06-r6-redis-wait-timestamp-naive-utc": (
        "Redis and a host time zone other than UTC", False,
        "host time zone dimension: vclock.run(tz=...) (TZ + tzset, naive datetimes are host-local); C05, C06, C12 and gen.worker_case draw "
        "EST5 / IST-5:30 / NZT-13", ["C06"]),
    "C07-r6-serializer-exclude-none": ("top-level pydantic model argument with a None field", True, None, ["C07"]),
    "C08-r6-pydantic-output-exclude-none": (
        "PydanticConverter, returned model with a None field", False, "C08 outputs: Report / list[Report] return values with None fields", ["C08"]),
    "C09-r6-sync-pool-shutdown-nowait": (
        "blocking sync actor whose execution timeout expires mid-run, more messages waiting", False,
        "new C09 sub-check sync-timeout (real blocking threads, thread_time)", ["C09"]),
    "C10-r6-task-callback-returns-before-count-on-failure": (
        "messages_limit and an execution that fails outside the actor (result asked for, worker connection without results broker)", False,
        "C10: worker connection without bucket brokers + result-storing jobs", ["C10"]),
    "C11-r6-worker-consumers-filter-on-all-topics": ("worker serving >=2 queues, job named like an actor of the other queue", True, None, ["C11"]),
    "C12-r6-ttl-zero-falsy": ("Parameters.ttl == timedelta(0)", False, "C12: ttl 0, 1 us, 0.5 s", ["C12"]),
    "C13-r6-runner-rejects-after-process-failure": ("store failure after a requeue whose message was already consumed again", True, None, ["C13"]),
    "C14-r6-reporting-guard-excludes-result-store": (
        "forced cancellation during a slow result store after a requeue, the requeued message already held by another worker", False,
        "new C14 sub-checks workers-stop-* (and: the existing workers-* turned out to be vacuous - see DESIGN 12)", ["C14", "C13"]),
    "C15-r6-redis-watcherror-retry-skips-contended": (
        "Redis, an enqueue landing between the consumer's WATCH/LRANGE and its EXEC", False,
        "C15 racing-producer mode; the Redis model now raises redis.exceptions.WatchError (it raised a class of its own, which the "
        "changed code's `except WatchError` did not match)", ["C15"]),
    "C16-r6-pending-store-committed-by-refused-retry": ("set_* - refused retry - set_* - eager response", True, None, ["C16"]),
    "C17-r6-subscriber-kwargs-memoised": ("one operation called with and without its optional arguments", True, None, ["C17"]),
    "C18-r6-resolvers-cached-across-override": ("override with a different sub-dependency set after the first resolution", True, None, ["C18"]),
    "C19-r6-job-overdue-le": ("Job.is_overdue exactly at timestamp + ttl", True, None, ["C19"]),
    "C20-r6-health-stop-in-finally-before-finish": (
        "probe during the graceful shutdown while an actor is still running", False,
        "C20 slow_stop: a refused connection while run() has not returned is a closed port", ["C20"]),
}
T7 = {
    "C01-r7-amqp-paused-delivery-parked-finish-leaks": (
        "RabbitMQ: start - pause - a message is pushed to the paused consumer - finish without unpause", False,
        "C01 pause block: a quarter of the paused consumers are finished while paused instead of being resumed", ["C01"]),
    "C02-r7-debug-log-extra-name-keyerror": (
        "host application enabled DEBUG for the 'repid' logger; a failing actor with retries left", False,
        "host logging level dimension (reset_globals(log=...), case['log']): worker scenarios, broker histories, C16, C17 run a fifth "
        "of the cases with the 'repid' logger at DEBUG and a formatting handler", ["C02"]),
    "C03-r7-redis-low-priority-marker-falsy-zero": (
        "Redis, a LOW-priority message that is handed back (stop / limit) or orphaned", False,
        "message priorities in every worker scenario (gen.host_dims: LOW / HIGH jobs)", ["C03"]),
    "C04-r7-redis-delayed-score-assumes-utc": (
        "Redis and a host time zone other than UTC", False, "C04 cases draw the host dimensions too (gen.host_dims: tz, log, priorities, names). "
        "(The committed harness printed a violation for this change - on amqp, the settled race listed in DESIGN 12, i.e. a false alarm of the "
        "harness and not a detection.)", ["C04"]),
    "C05-r7-redis-due-score-ignores-dst": (
        "Redis and a host zone that is on daylight-saving time (time.timezone differs from the offset in force)", False,
        "zones with daylight-saving time in force at EPOCH (vclock.ZONES_DST, drawn where the case stays inside the zone's constant reach); "
        "the virtual time module's timezone / altzone / daylight now follow tzset(). (The committed harness flagged the change by accident: "
        "its time module copy still carried the UTC constants under EST5.)", ["C05"]),
    "C06-r7-amqp-requeue-publish-before-ack": (
        "RabbitMQ, recurring job with retries, zero back-off, prefetch > 1, delivery ordered before the publisher confirm", False,
        "C06 judges the number of copies also when the scenario ran into the horizon (the stray unacknowledged copy kept it from settling, "
        "and the horizon guard then skipped the verdict); tasks_limit 1000 drawn; the RabbitMQ model closes a channel that settles an unknown "
        "delivery tag (406 PRECONDITION_FAILED) like the real server", ["C06"]),
    "C07-r7-valid-name-accepts-colon": (
        "a queue or topic name containing ':' (accepted by the widened validator)", False,
        "C07 reads the name / id alphabets off the validators of the tree under test (every printable character the regex accepts) instead "
        "of a hard-coded alphabet; near-miss pairs <queue><sep>delayed / dead; a decoder that raises on an accepted key is a wrong answer", ["C07"]),
    "C08-r7-basic-required-skips-kwonly": ("BasicConverter, required keyword-only parameter missing from a non-empty payload", True, None, ["C08"]),
    "C09-r7-amqp-qos-skip-leaves-paused": ("RabbitMQ, tasks_limit=1, the pause path entered once", True,
                                           "(C09 jobs now also store results and carry priorities)", ["C09"]),
    "C10-r7-redis-reject-in-front-drops-priority": (
        "Redis, HIGH / LOW messages prefetched beyond messages_limit and handed back", False, "message priorities in C10 cases (gen.host_dims)", ["C10"]),
    "C11-r7-include-router-shares-topic-sets": ("one Router object included into several workers", True, None, ["C11"]),
    "C12-r7-params-timestamp-utc-roundtrip": ("serialising broker and a host time zone other than UTC", True, None, ["C12"]),
    "C13-r7-result-timestamp-utc-finish": (
        "host time zone other than UTC (east of UTC by more than the ttl: Job.result is None at once)", True,
        "(added: the bucket's timestamp must lie between the start of the execution and the completion of the store - catches the "
        "silent shift west of UTC as well)", ["C13"]),
    "C14-r7-redis-maintenance-utcnow-timestamp": (
        "Redis, host west of UTC, maintenance while a live consumer holds a message", False,
        "host time zone and logging level in C01 / C14 / C15 histories; VDateTime.utcnow() returned host-local time (a fidelity defect of "
        "the virtual clock: utcnow().timestamp() was right by accident), now the UTC wall clock", ["C14"]),
    "C15-r7-redis-prefetch-buffer-by-timestamp": (
        "Redis, >= 2 same-priority messages in the prefetch buffer whose own timestamps are not in enqueue order", False,
        "C15 enqueues draw a message age (timestamp = now - age): the job object was made earlier than it was enqueued", ["C15"]),
    "C16-r7-debug-log-bad-placeholder": ("'repid' logger at DEBUG; eager response with callbacks or set_result", False,
                                         "logging level dimension in C16 handles / programs / dependency-eager", ["C16"]),
    "C17-r7-logger-exc-text-in-template": ("a subscriber raising an exception whose text contains braces", False,
                                           "C17 raising subscribers draw their exception text ({}, {0}, {x}, JSON, %s); gen.EXC_TEXT for actors", ["C17"]),
    "C18-r7-default-valued-dep-param-skipped": ("a provider's dependency parameter that carries a default value", False,
                                                "C18 providers: dependency parameters with defaults and keyword-only ones", ["C18"]),
    "C19-r7-redis-bucket-exat-naive-as-utc": ("Redis bucket broker and a host time zone other than UTC", False,
                                              "C19 store-redis draws the host time zone", ["C19"]),
    "C20-r7-request-line-regex-backtracking": (
        "a request target of >= ~28 non-slash characters without a well-formed tail", False,
        "C20 protocol: long-target inputs (12-5000 characters, complete / truncated / without version) and a CPU-time budget oracle "
        "(process CPU time, interrupting the computation): data_received computing for seconds blocks the worker's event loop", ["C20"]),
}
T8 = {
    "C01-r8-amqp-connect-again-forgets-tags": (
        "RabbitMQ: connect() called a second time on a connected broker while a message is held (second Connection / app over the broker object)", False,
        "C01 histories: `reconnect` op (idempotent connect on a connected broker)", ["C01"]),
    "C02-r8-message-dependency-instance-reused-after-eager": (
        "eager response on one delivery, the same message redelivered in the same process, another eager call on the redelivery", True, None, ["C02"]),
    "C03-r8-eager-response-leaves-reporting-entry": (
        "eager response, the same id delivered again in the same run, stop signal while that later execution outlasts the graceful period", False,
        "C03 pool: eager (retry / reject / reschedule) first delivery followed by a 15 s second delivery, graceful 0 / 0.5 s", ["C03"]),
    "C04-r8-eager-retry-policy-number-off-by-one": ("eager retry() / force_retry() without next_retry, second or later retry, non-flat policy", True, None, ["C04"]),
    "C05-r8-wait-until-prefers-period-grid": (
        "in-memory / RabbitMQ: a message that carries both a period and a retry time (retried iteration of a recurring job)", False,
        "C05 form `netby`: defer_by + next_execution_time, period 1 s or 1 h", ["C05"]),
    "C06-r8-redis-reject-delayed-score-capped-at-now": (
        "Redis: the pending iteration is taken through the DELAYED category before it is due and handed back", False,
        "scenario interpreter: `inspect` (a consumer of the DELAYED category takes waiting messages, holds them, rejects or abandons "
        "them) - used by C06 and C09", ["C06"]),
    "C07-r8-get-payload-swallows-bucket-error": (
        "arguments in a bucket and the worker's look-up of the bucket failing once", False,
        "C07 e2e: the worker's first get_bucket raises; the actor is never called with anything but the job's arguments", ["C07"]),
    "C08-r8-pydantic-validate-default": ("PydanticConverter, declared default that does not satisfy the annotation, payload omitting it", False,
                                         "C08 signatures: defaults None / () / '' / 0 under any annotation", ["C08"]),
    "C09-r8-mem-next-due-cache-misses-put-back": (
        "in-memory: a delayed message taken through the DELAYED category, held across its due time, handed back", False,
        "C09: deferred jobs + `inspect` holding one across its due time; allowance for deferred jobs = pickup + promotion latency", ["C09"]),
    "C10-r8-hand-back-releases-unheld-slot": ("two queues with backlog, tasks_limit < messages_limit, M-th actor outlasting the graceful period", True, None, ["C10"]),
    "C11-r8-amqp-bounce-counter-dead-letters-foreign": ("RabbitMQ: a foreign-topic message bounced 30 times (>= 3.1 s) by a worker that does not serve it", True, None, ["C11"]),
    "C12-r8-mem-ttl-guard-under-topic-filter": ("in-memory NORMAL consumer without a topic filter, expired message", True, None, ["C12"]),
    "C13-r8-job-result-cached-on-object": (
        "Job.result read twice on one Job object with a later execution in between (recurring job, eager set_result + retry)", False,
        "scenario `read_results_early`: Job.result is read on the enqueued Job object after every execution", ["C13"]),
    "C14-r8-amqp-finish-cumulative-nack": (
        "RabbitMQ: two consumers on one broker object (one channel), the one being finished has >= 2 unsettled messages, the other holds an "
        "earlier delivery", False,
        "the RabbitMQ model implements `multiple` settlements (it raised NotImplementedError: the run ended as a harness error, not a verdict)", ["C14"]),
    "C15-r8-mem-put-back-parks-due-in-delayed": (
        "in-memory: a rejected message that carries an already-due schedule (retried / recurring), another enqueue before the next consume", False,
        "C15 mode `returned-due`", ["C15"]),
    "C16-r8-message-parameters-assigned-before-requeue": (
        "the broker's requeue failing once, then another retry-type action on the same handle", False,
        "C16 handles: one-shot broker faults; a failed action leaves the handle usable with its retry state unchanged", ["C16"]),
    "C17-r8-subscriber-dedup-by-func": ("two instances of one middleware class on a connection", False,
                                        "C17: a middleware class instantiated a second time (`twin_of`)", ["C17"]),
    "C18-r8-override-cycle-check-false-positive": (
        "override() with a provider below which a Depends object is reachable along two paths", False,
        "C18: an override of a supported, acyclic provider that raises is a violation (it ended as a harness error)", ["C18"]),
    "C19-r8-overdue-counts-from-delay-until": ("a message with a ttl and a delay_until later than its timestamp", False,
                                               "C19 overdue: delay_until / defer_by / next_execution_time / retry state on Parameters and Job", ["C19"]),
    "C20-r8-endpoint-strip-trailing-slash": ("endpoint setting ending with a slash (or starting with several)", True, None, ["C20"]),
}
T9 = {
    "C01-r9-redis-overdue-nack-then-handed-out": ("Redis NORMAL consumer, a message whose ttl ran out, met in the priority level polled last", False,
                                                  "C01 histories: some enqueues carry a time-to-live (0.3 / 1 / 5 s)", ["C01"]),
    "C02-r9-prepare-retry-drops-max-amount": ("retries >= 2 and two failures in a row", True, None, ["C02"]),
    "C03-r9-amqp-delivered-map-dropped-at-hand-out": ("RabbitMQ, stop signal in the one-or-two-step window in which consume() has returned but the runner has not received the message", True, None, ["C03"]),
    "C04-r9-type-value-errors-not-retried": ("an attempt failing with TypeError / ValueError while retries remain", True, None, ["C04"]),
    "C05-r9-redis-requeue-due-fast-path-same-second": ("Redis requeue with a retry time less than a second ahead, no whole-second boundary in between", False,
                                                       "C05 form `requeue`: the consumer puts a received message back with a retry time delta ahead", ["C05"]),
    "C06-r9-prepare-retry-loses-delay-until": ("recurring job with retries, an iteration that was retried and finished sooner after its slot than the one before", True, None, ["C06"]),
    "C07-r9-amqp-publish-clamps-priority": ("RabbitMQ and a routing key priority above 9", False, "C07 e2e: raw priorities 1 / 10 / 42 / 255 through the broker API", ["C07"]),
    "C08-r9-basic-null-treated-as-absent": ("BasicConverter, payload carrying null for a declared parameter", True, None, ["C08"]),
    "C09-r9-redis-take-holds-pause-lock": ("Redis, saturated worker, the slot frees while the poller is inside a take", True, None, ["C09"]),
    "C10-r9-amqp-settle-pops-tag-after-call": (
        "RabbitMQ, two queues, a message handed back at the limit and redelivered before basic_reject returns", False,
        "RabbitMQ model: in the slow mode a settlement's write drains a few loop steps after the server acted (a redelivery it causes reaches "
        "the consumer first)", ["C10"]),
    "C11-r9-mem-scan-drops-foreign-on-expired": ("in-memory, foreign-topic messages ahead of an expired message in a shared queue", False,
                                                 "C11: an already-expired message somewhere in the traffic", ["C11"]),
    "C12-r9-amqp-paused-holds-after-ttl-check": (
        "RabbitMQ, consumer paused with room in its prefetch window (two queues, tasks_limit >= 2), a message arriving live and expiring during the pause", False,
        "new C12 sub-checks saturated-* (hand-over instant observed at consume()); writing them exposed D33 on the unchanged tree (Redis), "
        "repaired in /repo af70cfb", ["C12"]),
    "C13-r9-bookkeeping-skipped-on-store-failure": (
        "result store failing with tasks_limit=1 (or on the execution that completes messages_limit)", False,
        "C13 fault: running into the horizon with the fault while the fault-free run settled is a verdict (it was 'inconclusive')", ["C13"]),
    "C14-r9-hand-back-second-reject-on-cancel": (
        "Redis, worker over >= 2 queues with a message limit, the last counted execution ending while a hand-back's reject is in flight", False,
        "new C14 sub-check limit-handback (workloads of C03 limit-multi; every unfinished message is in its queue exactly once)", ["C14", "C03"]),
    "C15-r9-redis-lrem-before-push": ("Redis, an id enqueued again while its first entry is still waiting, other messages enqueued in between", False,
                                      "C15 drain mode on Redis: re-enqueue of a waiting id (`again`)", ["C15"]),
    "C16-r9-noaction-derives-from-exception": ("an actor that gives its eager response inside its own try / except Exception", False,
                                               "scripted actors: `guard` (the eager call sits in a try / except Exception)", ["C16", "C02"]),
    "C17-r9-redis-queue-delete-alias": ("Redis queue_delete with subscribers for the delete / flush signals", True, None, ["C17"]),
    "C18-r9-asyncify-unwraps-before-coroutine-test": ("a provider that is an async callable made by a functools.wraps decorator around a sync function", False,
                                                      "C18 providers behind an `offload` decorator", ["C18"]),
    "C19-r9-backoff-fast-path-drops-min-floor": ("min_backoff > multiplier * 2**max_exponent and a retry number >= max_exponent", True, None, ["C19"]),
    "C20-r9-split-request-status-read-early": (
        "request split across packets with a consumer failure between the packets", False,
        "C20 protocol: the health status may turn 503 between two chunks; an answer must tell the status in force when it was written. "
        "(The committed check flagged the change through `status-for-other-request`, which would also have flagged a correct server that "
        "reassembles split requests - an over-reach, narrowed.)", ["C20"]),
}
RETIRED = {"C10-r4-stop-event-at-mth-start", "C03-r6-health-stop-before-graceful-finish"}


def main() -> None:
    last = json.loads((ROOT / ".work" / "seeded_results.json").read_text())
    rows = [(n, 2, needs, first, st, [n[:3]]) for n, (needs, first, st) in T.items()]
    rows += [(n, 3, needs, first, st, checks) for n, (needs, first, st, checks) in T3.items()]
    rows += [(n, 4, needs, first, st, checks) for n, (needs, first, st, checks) in T4.items()]
    rows += [(n, 5, needs, first, st, checks) for n, (needs, first, st, checks) in T5.items()]
    rows += [(n, 6, needs, first, st, checks) for n, (needs, first, st, checks) in T6.items()]
    rows += [(n, 7, needs, first, st, checks) for n, (needs, first, st, checks) in T7.items()]
    rows += [(n, 8, needs, first, st, checks) for n, (needs, first, st, checks) in T8.items()]
    rows += [(n, 9, needs, first, st, checks) for n, (needs, first, st, checks) in T9.items()]
    for name, rnd, needs, first, strengthened, checks in rows:
        d = ROOT / "seeded" / name
        pid = name[:3]
        r = last.get(name, {})
        results = r.get("results") or {}
        got = [f"{c} quick: {results[c].get('first', '')}" for c in checks if results.get(c, {}).get("caught")]
        meta = {"property": pid, "checks": checks, "source": SRC.format(r=rnd), "needs_to_manifest": needs, "confirmed_by_me": CONF,
                "tests_pass_with_change": r.get("tests_pass"), "demo_fails_with_change": r.get("demo_fails_with_change"),
                "demo_passes_without": r.get("demo_passes_without"),
                "result": ("caught by " + "; ".join(got)) if results.get(pid, {}).get("caught") else f"NOT caught by {pid} ({results.get(pid)})",
                "caught_by_first_version_of_check": first}
        if first is None:
            meta["caught_by_first_version_of_check"] = False
            meta["note"] = "not evaluated against the first version: the gap was evident from the description and the generator was strengthened first"
        if strengthened:
            meta["strengthened"] = strengthened
        if name in RETIRED:
            meta["retired"] = True
            meta["result"] = ("no longer breaks its property at /repo HEAD (see 'strengthened'); before the repair it was caught by the "
                              "strengthened check")
        (d / "meta.json").write_text(json.dumps(meta, indent=1) + "\n")
        print(name, meta["result"][:90], meta["tests_pass_with_change"], meta["demo_fails_with_change"], meta["demo_passes_without"])

if __name__ == "__main__":
    main()
