#!/venv/bin/python
"""Regenerate /verif/MANIFEST.json from tools/manifest_data.py (single source of truth)."""
import json, sys
from pathlib import Path
ROOT = Path(__file__).resolve().parent.parent
sys.path.insert(0, str(ROOT))
from tools.manifest_data import CHECKS, NOT_APPLICABLE, NOTES

PIDS = [json.loads(l)["id"] for l in (ROOT / "properties.jsonl").read_text().splitlines() if l.strip()]
BASELINE = ("cd /repo && /venv/bin/python -m pytest -ra -q -p no:cacheprovider --timeout=900 "
            "--continue-on-collection-errors")
m = {
    "version": 1,
    "setup_cmd": "sh tools/setup.sh",
    "hooks": {
        "guard": "ALEKSUL_REPID_VERIF",
        "enable": "no source hooks are needed: checks import repid from /repo's working tree (PYTHONPATH) and patch time, "
                  "Redis and AMQP from outside; the runner sets ALEKSUL_REPID_VERIF=1 for uniformity",
        "baseline_off_cmd": BASELINE,
        "source_commits": [],
        "add_only": True,
    },
    "engines": [
        {"name": "harness", "path": "harness/", "serves_properties": [c["property_id"] for c in CHECKS],
         "kind_free_text": "Hypothesis-driven property-based testing on a virtual-time asyncio loop with in-process Redis/AMQP "
                           "server models, step-indexed fault injection, reference-model oracles"},
    ],
    "checks": [],
    "notes": NOTES,
    "not_applicable": [],
}
claimed = set()
for c in CHECKS:
    pid = c["property_id"]
    claimed.add(pid)
    m["checks"].append({
        "property_id": pid,
        "quick_cmd": f"/venv/bin/python -m harness.run {pid} --tier quick",
        "thorough_cmd": f"/venv/bin/python -m harness.run {pid} --tier thorough",
        "evidence_file": f"evidence/{pid}.json",
        "replay_cmd_template": f"/venv/bin/python -m harness.run {pid} --replay {{path}}",
        "engine": "harness",
        "level_claimed": {"category": c["level"], "text": c["text"], "design_ref": c["design_ref"]},
        "level_note": c["note"],
        "technique": c["technique"],
    })
for pid in PIDS:
    if pid not in claimed:
        m["not_applicable"].append({"property_id": pid, "reason": NOT_APPLICABLE.get(pid, "check not built yet (work in progress; see DESIGN.md §9 build order)")})
(ROOT / "MANIFEST.json").write_text(json.dumps(m, indent=1) + "\n")


print("MANIFEST.json written:", len(m["checks"]), "checks,", len(m["not_applicable"]), "not_applicable")
