#!/venv/bin/python
"""Write seeded/<round-2 name>/meta.json from the table below and the last `tools/seeded.py` run (.work/seeded_last.json)."""
import json
from pathlib import Path

ROOT = Path(__file__).resolve().parent.parent
SRC = "written by an independent sub-agent (round 2) that saw only the property text and its own scratch worktree of /repo"
CONF = ("tools/seeded.py --tests --demo (patch applied to a scratch copy of /repo: the pinned test suite passes on the copy, "
        "demo.py fails with the change and passes on /repo)")

# name: (needs_to_manifest, caught_by_first_version_of_check, what was strengthened when it was missed)
T = {
    "C01-r2-redis-watch-after-read": (
        "Redis, >=2 consumers taking from the same queue concurrently with unequal per-command latencies, so that one consumer's "
        "whole take lands between the other's read and its WATCH", False,
        "C01 histories gained 'launch'/'collect' rounds: several consume calls in flight at once over connections with "
        "different simulated latencies"),
    "C02-r2-result-bucket-built-before-report": (
        "result storing requested and (a) an exception whose __str__ raises, or (b) a worker connection without a results bucket broker", False,
        "C02 generator gained BadStrError outcomes, a worker-without-results-broker variant and unserializable return values"),
    "C03-r2-redis-maintenance-breaks-early": (
        "Redis, two messages in flight, the earlier one with a long execution timeout still running, the later one of a dead worker "
        "with a shorter, elapsed timeout", False,
        "C03 kill-* scenarios now mix execution timeouts per job and run maintenance at every deadline"),
    "C04-r2-amqp-backoff-drops-days": (
        "RabbitMQ, a retry policy returning more than 24 h", False,
        "C04 gained large-* subchecks: policies with back-offs of days to weeks"),
    "C05-r2-amqp-expiration-drops-days": ("RabbitMQ, delay of at least 24 h at publish time", True, None),
    "C06-r2-amqp-expiration-drops-days": (
        "RabbitMQ, recurring job with a period longer than one day", False,
        "C06 gained amqp-long-period: periods of 1-30 days"),
    "C07-r2-duration-decode-truncates": ("wire brokers, a duration whose float*1e6 falls just below an integer (~2 % of microsecond values)", True, None),
    "C08-r2-pydantic-cached-validation": (
        "PydanticConverter, actor mutating a mutable argument in place, second execution with a byte-identical payload", False,
        "C08 direct-* subchecks execute every payload twice on one converter with a mutating actor and compare both bindings (aliasing)"),
    "C09-r2-slot-before-consume": ("worker with >=2 queues of which at least tasks_limit are idle", True, None),
    "C10-r2-redis-put-nowait-on-cancel": ("Redis, messages_limit stop with backlog >= M + tasks_limit + 1 and a slow actor", True, None),
    "C11-r2-redis-topic-regex-ungrouped": ("Redis, worker with >=2 topics on a queue and a foreign topic having one of them as a proper prefix", True, None),
    "C12-r2-redis-no-recheck-after-expired": (
        "Redis, two expired messages adjacent in one priority of one queue", False,
        "C12 ttl-* subchecks enqueue several copies of the expiring message"),
    "C13-r2-store-outside-reporting-guard": (
        "forced cancellation (graceful_shutdown_time elapsed) landing while the result is being stored, after the disposition", False,
        "C13 gained the 'stop' subcheck: stop signals aimed a few loop steps around the store of a dry run, graceful-0 scenarios "
        "weighted; thorough enumerates every step"),
    "C14-r2-redis-watch-after-pick": ("Redis, two consumers whose takes overlap within one round trip", True, None),
    "C15-r2-redis-cached-scan-position": (
        "Redis, topic-filtered consumer, >=10 foreign names at the old end of the queue, then a return or a shrinking foreign run", False,
        "C15 gained the foreign-run mode: long foreign runs (10-30) ahead of own messages, rejects and a second consumer eating the run"),
    "C16-r2-retries-left-truthiness-guard": ("already_tried strictly greater than the budget (force_retry past the budget, then retry)", True, None),
    "C17-r2-actor-run-fast-path": (
        "actor body performing a wrapped operation, a subscriber for the inner signal, no actor_run subscriber", False,
        "C17 lifecycle actor enqueues a sentinel job from inside its body; subscriber sets without actor_run signals are generated"),
    "C18-r2-shared-inflight-resolution": (
        "two messages resolved concurrently through one Depends whose provider suspends and is message dependent", False,
        "C18 resolve gained concurrent executions and providers that suspend (await / sync-in-thread)"),
    "C19-r2-bucket-overdue-drops-tz": ("tz-aware bucket timestamp with a non-UTC offset, now within |offset| of the deadline", True, None),
    "C20-r2-runner-writes-ok-back": (
        "worker with >=2 queues, one consumer failed, stop requested, probe during the graceful-shutdown window", False,
        "C20 socket scenario gained the slow_stop phase: probes between the stop signal and the end of a long-running actor"),
}


def main() -> None:
    last = json.loads((ROOT / ".work" / "seeded_results.json").read_text())
    for name, (needs, first, strengthened) in T.items():
        d = ROOT / "seeded" / name
        pid = name[:3]
        r = last.get(name, {})
        res = (r.get("results") or {}).get(pid, {})
        meta = {"property": pid, "checks": [pid], "source": SRC, "needs_to_manifest": needs, "confirmed_by_me": CONF,
                "tests_pass_with_change": r.get("tests_pass"), "demo_fails_with_change": r.get("demo_fails_with_change"),
                "demo_passes_without": r.get("demo_passes_without"),
                "result": (f"caught by {pid} quick: {res.get('first', '')}" if res.get("caught") else f"NOT caught (rc={res.get('rc')})"),
                "caught_by_first_version_of_check": first}
        if strengthened:
            meta["strengthened"] = strengthened
        (d / "meta.json").write_text(json.dumps(meta, indent=1) + "\n")
        print(name, meta["result"][:100], meta["tests_pass_with_change"], meta["demo_fails_with_change"], meta["demo_passes_without"])


if __name__ == "__main__":
    main()
