#!/venv/bin/python
"""Evaluate seeded changes kept under /verif/seeded/<name>/ (patch.diff, demo.py, meta.json).

For each: copy /repo to a scratch directory, apply the patch, (optionally) run the repository's test suite and the
demonstration, run the quick check(s) of the property it breaks with REPID_SRC pointing at the copy, report
caught / MISSED, and delete the copy.  Evidence/replay files of these runs go to .work/, never to evidence/.

usage: tools/seeded.py [--tests] [--demo] [--tier quick|thorough] [--all-checks] [name ...]
"""
from __future__ import annotations

import json
import os
import shutil
import subprocess
import sys
import time
from pathlib import Path

ROOT = Path(__file__).resolve().parent.parent
PYTEST = ["/venv/bin/python", "-m", "pytest", "-q", "-x", "-p", "no:cacheprovider", "--timeout=900",
          "--continue-on-collection-errors", "--deselect", "tests/test_hypothesis.py::test_job_creation",
          "--ignore=tests/integration"]
ALL = [f"C{i:02d}" for i in range(1, 21)]


def main() -> int:
    args = sys.argv[1:]
    tier = args[args.index("--tier") + 1] if "--tier" in args else "quick"
    seeds = args[args.index("--seeds") + 1].split(",") if "--seeds" in args else [os.environ.get("VERIF_SEED", "1")]
    names = [a for a in args if not a.startswith("--") and a != tier and a != ",".join(seeds)]
    rows = []
    for d in sorted((ROOT / "seeded").iterdir()):
        if not (d / "patch.diff").exists() or (names and d.name not in names):
            continue
        meta = json.loads((d / "meta.json").read_text()) if (d / "meta.json").exists() else {}
        if meta.get("retired") and d.name not in names:
            continue  # no longer breaks the property at /repo HEAD (see meta.json); evaluated only when named
        dst = Path(f"/var/tmp/repid-seed-{os.getpid()}-{d.name}")
        shutil.rmtree(dst, ignore_errors=True)
        shutil.copytree("/repo", dst, ignore=shutil.ignore_patterns(".git", "__pycache__", ".pytest_cache", "docs", "benchmarks"))
        try:
            r = subprocess.run(["git", "apply", "--unsafe-paths", f"--directory={dst}", str(d / "patch.diff")], cwd="/", capture_output=True, text=True)
            if r.returncode != 0:
                r = subprocess.run(["patch", "-p1", "-i", str(d / "patch.diff")], cwd=dst, capture_output=True, text=True)
            if r.returncode != 0:
                print(f"!! {d.name}: patch does not apply: {r.stderr[-300:]}{r.stdout[-300:]}")
                rows.append({"name": d.name, "status": "patch-does-not-apply"})
                continue
            info = {"name": d.name, "property": meta.get("property")}
            if "--tests" in args:
                t = subprocess.run(PYTEST, cwd=dst, capture_output=True, text=True)
                info["tests_pass"] = t.returncode == 0
                info["tests_tail"] = t.stdout.strip().splitlines()[-1:] if t.stdout.strip() else []
            if "--demo" in args and (d / "demo.py").exists():
                dm = subprocess.run(["/venv/bin/python", str(d / "demo.py")], cwd=dst, capture_output=True, text=True, timeout=300,
                                    env={**os.environ, "PYTHONPATH": str(dst)})
                base = subprocess.run(["/venv/bin/python", str(d / "demo.py")], cwd="/repo", capture_output=True, text=True, timeout=300,
                                      env={**os.environ, "PYTHONPATH": "/repo"})
                info["demo_fails_with_change"] = dm.returncode != 0
                info["demo_passes_without"] = base.returncode == 0
            checks = ALL if "--all-checks" in args else (meta.get("checks") or [meta.get("property")])
            info["results"] = {}
            for pid in checks:
              hits = []
              for sd in seeds:
                t0 = time.monotonic()
                env = {**os.environ, "REPID_SRC": str(dst), "VERIF_CASE_LIMIT_S": "30", "VERIF_EVIDENCE_DIR": str(ROOT / ".work" / "seed-evidence"),
                       "VERIF_REPLAY_DIR": str(ROOT / ".work" / "seed-replays"), "VERIF_SEED": sd}
                c = subprocess.run(["/venv/bin/python", "-m", "harness.run", pid, "--tier", tier], cwd=ROOT, env=env,
                                   capture_output=True, text=True)
                caught = c.returncode == 1 and "VIOLATION" in c.stdout
                hits.append(caught)
                first = next((ln.strip() for ln in c.stdout.splitlines() if ln.startswith("  [")), "")
                info["results"][pid] = {"caught": caught, "rc": c.returncode, "seconds": round(time.monotonic() - t0, 1), "first": first[:200],
                                        "seeds": dict(zip(seeds, hits))}
                print(f"{'caught' if caught else ('ERROR' if c.returncode == 2 else 'MISSED'):7s} {d.name:34s} {pid} "
                      f"{time.monotonic() - t0:6.1f}s {'seed ' + sd + ' ' if len(seeds) > 1 else ''}{first[:140]}", flush=True)
                if c.returncode == 2:
                    print(c.stderr[-500:])
              if len(seeds) > 1:
                  info["results"][pid]["caught"] = all(hits)
                  print(f"   {d.name} {pid}: caught at {sum(hits)} of {len(hits)} seeds", flush=True)
            rows.append(info)
        finally:
            shutil.rmtree(dst, ignore_errors=True)
    out = ROOT / ".work" / "seeded_last.json"
    out.parent.mkdir(exist_ok=True)
    out.write_text(json.dumps(rows, indent=1))
    # results of all runs, merged by name (a run without --tests/--demo keeps the earlier answers)
    allp = ROOT / ".work" / "seeded_results.json"
    merged = json.loads(allp.read_text()) if allp.exists() else {}
    for r in rows:
        old = merged.get(r["name"], {})
        res = {**old.get("results", {}), **r.get("results", {})}
        merged[r["name"]] = {**old, **r, "results": res}
    allp.write_text(json.dumps(merged, indent=1))
    return 0


if __name__ == "__main__":
    sys.exit(main())
