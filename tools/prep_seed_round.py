#!/usr/bin/env python3
"""Prepare a seeding round for independent sub-agents: tools/prep_seed_round.py N
-> /tmp/seed-instructionsN.md, /tmp/seedN-CNN/{property.txt,already.txt}, detached worktrees /tmp/wtN-CNN of /repo.
The agents get the property text and a description of earlier seeded changes only (nothing from /verif)."""
import json
import re
import subprocess
import sys
from pathlib import Path

ROOT = Path(__file__).resolve().parents[1]
N = int(sys.argv[1])
prev = sorted((p for p in Path("/tmp").glob("seed-instructions*.md") if re.findall(r"\d+", p.name)), key=lambda p: int(re.findall(r"\d+", p.name)[0]))
base = prev[-1].read_text() if prev else (ROOT / "tools" / "seed_instructions.md").read_text()
k = int(re.findall(r"\d+", prev[-1].name)[0]) if prev else N
txt = base.replace(f"round-{k} ", f"round-{N} ").replace(f"wt{k}-", f"wt{N}-").replace(f"seed{k}-", f"seed{N}-")
Path(f"/tmp/seed-instructions{N}.md").write_text(txt)
(ROOT / "tools" / "seed_instructions.md").write_text(txt)
props = {json.loads(l)["id"]: json.loads(l) for l in (ROOT / "properties.jsonl").read_text().splitlines() if l.strip()}
for pid, p in props.items():
    d = Path(f"/tmp/seed{N}-{pid}")
    d.mkdir(exist_ok=True)
    (d / "property.txt").write_text(f"{pid} - {p['title']}\n\n{p['statement']}\n\nQuantified over: {p['quantifier']['text']}\n")
    out = [f"Changes already produced for this property in {N - 1} earlier rounds (yours must differ in mechanism; the name says what "
           "each did, 'Needs' what it takes to manifest):\n"]
    for sd in sorted((ROOT / "seeded").glob(pid + "-*")):
        meta = json.loads((sd / "meta.json").read_text()) if (sd / "meta.json").exists() else {}
        files = sorted(set(re.findall(r"^\+\+\+ b/(\S+)", (sd / "patch.diff").read_text(), re.M)))
        out.append(f"### {sd.name}\nFiles touched: {', '.join(files)}\nNeeds: {meta.get('needs_to_manifest') or meta.get('needs') or meta.get('what', '')}\n")
    (d / "already.txt").write_text("\n".join(out))
    subprocess.run(["git", "-C", "/repo", "worktree", "add", "--detach", f"/tmp/wt{N}-{pid}"], check=False, capture_output=True)
print("prepared round", N)
